package main

// Facts for property C22 (the grammar compiler never crashes): the inventory of EXPLICIT crash sites of
// the pipeline packages, i.e. every call of
//
//	log.Fatal / log.Fatalf / log.Fatalln / log.Panic / log.Panicf / log.Panicln   (package functions
//	                                                     and the same methods of *log.Logger),
//	panic(…)                                             (the builtin),
//	os.Exit, syscall.Exit, runtime.Goexit
//
// in non-test files without the `verif` build tag (load.go excludes both).
//
//	fatalSites : List FatalSite  ⟨file, func, callee, idx, hash, msg, ctx⟩
//
// idx is the 0-based ordinal of the site among the crash sites of the same top-level declaration (in
// source order), hash the stmtHash of the GUARD of the call: the innermost enclosing `if` statement or
// `case`/`default` clause when there is one inside the innermost enclosing loop / function literal /
// declaration, otherwise the statement that contains the call. msg is the first string literal among the
// call's arguments (looking through one level of fmt.Sprintf / fmt.Errorf / errors.New), "" when there is
// none. ctx is the stmtHash of the whole enclosing declaration (without its doc comment); the
// expectation table pins it for the sites whose classification depends on more than the guard.
//
// What this cannot see: implicit run-time panics (nil dereference, index out of range, failed type
// assertion, division by zero, closed channel, …), crashes inside third-party or standard-library code,
// calls through function values (`f := log.Fatalf; f(…)`), and unbounded loops / recursion. Those are
// covered by the correspondence runs of the harness only.

import (
	"fmt"
	"go/ast"
	"go/token"
	"go/types"
	"go/constant"
	"os"
	"sort"
	"strconv"
	"strings"
)

func init() {
	register("C22 crash sites: log.Fatal*, log.Panic*, panic, os.Exit", extractC22)
}

var c22LogFuncs = map[string]bool{"Fatal": true, "Fatalf": true, "Fatalln": true, "Panic": true, "Panicf": true, "Panicln": true}

// c22Callee names the crash primitive a call expression invokes ("" when it is none).
func c22Callee(pkg *Package, f *ast.File, call *ast.CallExpr) string {
	switch fun := call.Fun.(type) {
	case *ast.Ident:
		if fun.Name != "panic" {
			return ""
		}
		if pkg.Info != nil {
			if obj, ok := pkg.Info.Uses[fun]; ok {
				if _, builtin := obj.(*types.Builtin); !builtin {
					return "" // a user-defined function called panic
				}
			}
		}
		return "panic"
	case *ast.SelectorExpr:
		if x, ok := fun.X.(*ast.Ident); ok {
			switch path := importPathOf(pkg, f, x); {
			case path == "log" && c22LogFuncs[fun.Sel.Name]:
				return "log." + fun.Sel.Name
			case path == "os" && fun.Sel.Name == "Exit":
				return "os.Exit"
			case path == "syscall" && fun.Sel.Name == "Exit":
				return "syscall.Exit"
			case path == "runtime" && fun.Sel.Name == "Goexit":
				return "runtime.Goexit"
			case path != "":
				return ""
			}
		}
		// methods of *log.Logger
		if pkg.Info != nil && c22LogFuncs[fun.Sel.Name] {
			if tv, ok := pkg.Info.Types[fun.X]; ok && tv.Type != nil {
				s := tv.Type.String()
				if s == "*log.Logger" || s == "log.Logger" {
					return "log.Logger." + fun.Sel.Name
				}
			}
		}
	}
	return ""
}

// c22Msg returns the first string literal among the arguments, looking through one wrapping call.
func c22Msg(args []ast.Expr, depth int) string {
	for _, a := range args {
		switch a := a.(type) {
		case *ast.BasicLit:
			if a.Kind == token.STRING {
				if s, err := strconv.Unquote(a.Value); err == nil {
					return s
				}
			}
		case *ast.CallExpr:
			if depth == 0 {
				if s := c22Msg(a.Args, 1); s != "" {
					return s
				}
			}
		}
	}
	return ""
}

// c22Guard picks the node whose hash identifies the site: see the comment at the top of the file.
// stack holds the ancestors of the call, outermost first.
func c22Guard(stack []ast.Node) ast.Node {
	var stmt ast.Node // innermost statement containing the call
	for i := len(stack) - 1; i >= 0; i-- {
		switch n := stack[i].(type) {
		case *ast.IfStmt, *ast.CaseClause, *ast.CommClause:
			return n
		case *ast.ForStmt, *ast.RangeStmt, *ast.FuncLit, *ast.FuncDecl, *ast.GenDecl:
			if stmt != nil {
				return stmt
			}
			return n
		case ast.Stmt:
			if _, isBlock := n.(*ast.BlockStmt); !isBlock && stmt == nil {
				stmt = n
			}
		}
	}
	if stmt != nil {
		return stmt
	}
	return stack[len(stack)-1]
}

// ---- exhaustive switches -------------------------------------------------------------------------
//
//	fatalSwitches : List SwitchFact  ⟨file, func, idx, type, covered, declared, leaks⟩
//
// One record per crash site (same file/func/idx) that sits in the `default:` clause of an expression
// switch whose tag has a defined (named) non-interface type T: `covered` are the declared constants of T
// named in the `case` lists of that switch, `declared` all package-level constants of type T, and
// `leaks` every place in the pipeline packages where a value of type T can come into being that is not
// one of the declared constants: an explicit conversion T(x) of a non-constant x, a constant expression
// of type T whose value no declared constant has, and non-constant arithmetic (binary operators other
// than comparisons, ++/--, op=) of type T. With declared ⊆ covered and no leaks, the default clause is
// dead code as far as Go's type discipline goes (what remains: unsafe, reflection, decoding into T —
// none of which the pipeline packages do to these types; zero values are covered when a declared
// constant has the zero value, which `leaks` reports otherwise as "zero value undeclared").

type c22EnumInfo struct {
	declared []string
	values   map[string]bool // exact string of the constant values
	leaks    []string
}

func c22TypeName(t types.Type) (string, *types.Named) {
	n, ok := t.(*types.Named)
	if !ok || n.Obj() == nil || n.Obj().Pkg() == nil {
		return "", nil
	}
	if _, isIface := n.Underlying().(*types.Interface); isIface {
		return "", nil
	}
	return n.Obj().Pkg().Path() + "." + n.Obj().Name(), n
}

// c22Enum collects declared constants and leaks of the named type (memoised by qualified name).
func c22Enum(p *Program, memo map[string]*c22EnumInfo, qname string, named *types.Named) *c22EnumInfo {
	if e, ok := memo[qname]; ok {
		return e
	}
	e := &c22EnumInfo{values: map[string]bool{}}
	memo[qname] = e
	scope := named.Obj().Pkg().Scope()
	for _, name := range scope.Names() {
		if c, ok := scope.Lookup(name).(*types.Const); ok && name != "_" {
			if qn, _ := c22TypeName(c.Type()); qn == qname {
				e.declared = append(e.declared, name)
				e.values[c.Val().ExactString()] = true
			}
		}
	}
	sort.Strings(e.declared)
	zero := "0"
	if b, ok := named.Underlying().(*types.Basic); ok && b.Info()&types.IsString != 0 {
		zero = `""`
	}
	if !e.values[zero] {
		e.leaks = append(e.leaks, "zero value undeclared")
	}
	isT := func(pkg *Package, x ast.Expr) (types.TypeAndValue, bool) {
		tv, ok := pkg.Info.Types[x]
		if !ok || tv.Type == nil {
			return tv, false
		}
		qn, _ := c22TypeName(tv.Type)
		return tv, qn == qname
	}
	for _, pkg := range p.Pkgs {
		if !pkg.Pipeline || pkg.Info == nil {
			continue
		}
		for _, f := range pkg.Files {
			for _, d := range f.AST.Decls {
				fn := declName(d)
				leak := func(kind string, n ast.Node) {
					e.leaks = append(e.leaks, fmt.Sprintf("%s:%s: %s %s", f.Rel, fn, kind, exprString(p.Fset, n.(ast.Expr))))
				}
				ast.Inspect(d, func(n ast.Node) bool {
					switch n := n.(type) {
					case *ast.IncDecStmt:
						if _, ok := isT(pkg, n.X); ok {
							leak("inc/dec", n.X)
						}
					case *ast.AssignStmt:
						if n.Tok != token.ASSIGN && n.Tok != token.DEFINE && len(n.Lhs) == 1 {
							if _, ok := isT(pkg, n.Lhs[0]); ok {
								leak("op-assign", n.Lhs[0])
							}
						}
					case ast.Expr:
						tv, ok := isT(pkg, n)
						if !ok {
							return true
						}
						if tv.Value != nil {
							if tv.Value.Kind() != constant.Unknown && !e.values[tv.Value.ExactString()] {
								leak("undeclared constant", n)
							}
							return false // parts of a constant expression are not values of their own
						}
						switch x := n.(type) {
						case *ast.CallExpr:
							if ftv, ok := pkg.Info.Types[x.Fun]; ok && ftv.IsType() {
								leak("conversion", n)
							}
						case *ast.BinaryExpr:
							leak("arithmetic", n)
						case *ast.UnaryExpr:
							if x.Op != token.AND && x.Op != token.ARROW {
								leak("arithmetic", n)
							}
						}
					}
					return true
				})
			}
		}
	}
	sort.Strings(e.leaks)
	return e
}

func leanStrList(l []string) string {
	q := make([]string, len(l))
	for i, s := range l {
		q[i] = leanStr(s)
	}
	return "[" + strings.Join(q, ", ") + "]"
}

// c22Switch returns the SwitchFact fields for a site guarded by `default:` of an expression switch.
func c22Switch(p *Program, pkg *Package, memo map[string]*c22EnumInfo, stack []ast.Node) (typ string, covered []string, e *c22EnumInfo) {
	if pkg.Info == nil {
		return "", nil, nil
	}
	for i := len(stack) - 1; i >= 0; i-- {
		switch n := stack[i].(type) {
		case *ast.IfStmt, *ast.ForStmt, *ast.RangeStmt, *ast.FuncLit:
			return "", nil, nil // a further guard between the clause and the call
		case *ast.CaseClause:
			if n.List != nil || i < 2 {
				return "", nil, nil
			}
			sw, ok := stack[i-2].(*ast.SwitchStmt) // clause ← block ← switch
			if !ok || sw.Tag == nil {
				return "", nil, nil
			}
			tv, ok := pkg.Info.Types[sw.Tag]
			if !ok || tv.Type == nil {
				return "", nil, nil
			}
			qname, named := c22TypeName(tv.Type)
			if named == nil {
				return "", nil, nil
			}
			e = c22Enum(p, memo, qname, named)
			seen := map[string]bool{}
			for _, st := range sw.Body.List {
				cc, ok := st.(*ast.CaseClause)
				if !ok {
					continue
				}
				for _, x := range cc.List {
					var id *ast.Ident
					switch x := x.(type) {
					case *ast.Ident:
						id = x
					case *ast.SelectorExpr:
						id = x.Sel
					}
					if id == nil {
						continue
					}
					if c, ok := pkg.Info.Uses[id].(*types.Const); ok {
						if qn, _ := c22TypeName(c.Type()); qn == qname && !seen[c.Name()] {
							seen[c.Name()] = true
							covered = append(covered, c.Name())
						}
					}
				}
			}
			sort.Strings(covered)
			return qname, covered, e
		}
	}
	return "", nil, nil
}

func extractC22(p *Program, w *Section) {
	w.Declare("fatalSites", "FatalSite")
	w.Declare("fatalSwitches", "SwitchFact")
	var sites, switches []string
	enumMemo := map[string]*c22EnumInfo{}
	for _, pkg := range p.Pkgs {
		if !pkg.Pipeline {
			continue
		}
		for _, f := range pkg.Files {
			for _, d := range f.AST.Decls {
				fn := declName(d)
				var n0 ast.Node = d
				switch d := d.(type) { // doc comments are not part of the hash
				case *ast.FuncDecl:
					c := *d
					c.Doc = nil
					n0 = &c
				case *ast.GenDecl:
					c := *d
					c.Doc = nil
					n0 = &c
				}
				ctx := ""
				idx := 0
				var stack []ast.Node
				ast.Inspect(d, func(n ast.Node) bool {
					if n == nil {
						stack = stack[:len(stack)-1]
						return true
					}
					if call, ok := n.(*ast.CallExpr); ok {
						if callee := c22Callee(pkg, f.AST, call); callee != "" {
							if ctx == "" {
								ctx = stmtHash(p.Fset, n0)
							}
							guard := ast.Node(call)
							if len(stack) > 0 {
								guard = c22Guard(stack)
							}
							h := stmtHash(p.Fset, guard)
							msg := c22Msg(call.Args, 0)
							if p.Verbose {
								fmt.Fprintf(os.Stderr, "%s:%d\t%s\t%s\t#%d\t%s\tctx=%s\t%q\n", f.Rel, p.Fset.Position(call.Pos()).Line, fn, callee, idx, h, ctx, msg)
							}
							sites = append(sites, fmt.Sprintf("⟨%s, %s, %s, %d, %s, %s, %s⟩",
								leanStr(f.Rel), leanStr(fn), leanStr(callee), idx, leanStr(h), leanStr(msg), leanStr(ctx)))
							if typ, covered, e := c22Switch(p, pkg, enumMemo, stack); typ != "" {
								if p.Verbose {
									fmt.Fprintf(os.Stderr, "\tdefault of switch over %s: covered %d of %d, leaks %q\n", typ, len(covered), len(e.declared), e.leaks)
								}
								switches = append(switches, fmt.Sprintf("⟨%s, %s, %d, %s, %s, %s, %s⟩",
									leanStr(f.Rel), leanStr(fn), idx, leanStr(typ), leanStrList(covered), leanStrList(e.declared), leanStrList(e.leaks)))
							}
							idx++
						}
					}
					stack = append(stack, n)
					return true
				})
			}
		}
	}
	w.Comment("explicit crash sites; ⟨file, enclosing declaration, callee, ordinal within the declaration, hash of the guard\n(innermost enclosing if / case clause, else the containing statement), message literal, hash of the declaration⟩.")
	w.Def("fatalSites", "FatalSite", sites)
	w.Comment("crash sites in the `default:` clause of a switch over a defined type; ⟨file, declaration, ordinal, type,\nconstants named in the case lists, declared constants of the type, other ways a value of the type arises⟩.")
	w.Def("fatalSwitches", "SwitchFact", switches)
}
