package main

import (
	"fmt"
	"go/ast"
	"go/build/constraint"
	"go/importer"
	"go/parser"
	"go/token"
	"go/types"
	"os"
	"path/filepath"
	"runtime"
	"sort"
	"strings"
)

// pipelineRoots are the packages whose module-internal import closure forms the generation
// pipeline (gen.Generate → compiler.Compile → syntax/lalr/lex/…). leafOnly packages are scanned
// themselves but their imports are not followed (cmd/textmapper also links the language server,
// which is not part of generation). extraDirs are scanned when they exist even if nothing in the
// closure imports them yet; a trailing "/*" means every direct subdirectory.
var (
	pipelineRoots = []string{"gen", "compiler", "shiftdfa"}
	leafOnly      = []string{"cmd/textmapper"}
	extraDirs     = []string{"grammar", "lalr", "lex", "syntax", "status", "util/*", "parsers/tm", "parsers/tm/*"}
)

// File is one parsed source file.
type File struct {
	Rel string // path relative to the repository root, slash separated
	AST *ast.File
}

// Package is one loaded package of the scanned module.
type Package struct {
	Rel      string // directory relative to the repository root
	Path     string // import path
	Pipeline bool   // part of the generation pipeline (extractors look at these only)
	Files    []*File
	Types    *types.Package // nil when type checking was not possible
	Info     *types.Info
	imports  []string // module-internal imports (relative directories)
}

// Program is everything the extractors can look at.
type Program struct {
	Repo     string
	Module   string
	Fset     *token.FileSet
	Pkgs     []*Package // sorted by Rel
	TypeInfo string     // how expressions were typed (informational)
	Problems []string
	Verbose  bool // -v: extractors may print a human-readable listing (with line numbers) to stderr

	byRel map[string]*Package
	std   types.Importer
	fake  map[string]*types.Package
}

func load(repo string, verbose bool) (*Program, error) {
	gomod, err := os.ReadFile(filepath.Join(repo, "go.mod"))
	if err != nil {
		return nil, err
	}
	p := &Program{Repo: repo, Verbose: verbose, Fset: token.NewFileSet(), byRel: map[string]*Package{}, fake: map[string]*types.Package{}}
	for _, line := range strings.Split(string(gomod), "\n") {
		if f := strings.Fields(line); len(f) >= 2 && f[0] == "module" {
			p.Module = strings.Trim(f[1], `"`)
			break
		}
	}
	if p.Module == "" {
		return nil, fmt.Errorf("%s/go.mod: no module line", repo)
	}

	// 1. parse: roots and their closure, then the extra directories.
	var closure func(rel string, follow bool)
	closure = func(rel string, follow bool) {
		pkg := p.parseDir(rel)
		if pkg == nil || pkg.Pipeline {
			return
		}
		pkg.Pipeline = true
		if follow {
			for _, imp := range pkg.imports {
				closure(imp, true)
			}
		}
	}
	for _, r := range pipelineRoots {
		closure(r, true)
	}
	for _, r := range leafOnly {
		closure(r, false)
	}
	for _, d := range extraDirs {
		if base, ok := strings.CutSuffix(d, "/*"); ok {
			ents, _ := os.ReadDir(filepath.Join(repo, filepath.FromSlash(base)))
			for _, e := range ents {
				if e.IsDir() {
					closure(base+"/"+e.Name(), true)
				}
			}
		} else {
			closure(d, true)
		}
	}

	// 2. type check (best effort: every error is ignored, the result is still usable).
	p.TypeInfo = "go/types (module from the scanned tree, std lib from GOROOT sources, third party stubbed)"
	p.std = importer.ForCompiler(p.Fset, "source", nil)
	var rels []string
	for rel, pkg := range p.byRel {
		if pkg != nil && pkg.Pipeline {
			rels = append(rels, rel)
		}
	}
	sort.Strings(rels)
	for _, rel := range rels {
		p.check(p.byRel[rel], nil)
	}

	for _, pkg := range p.byRel {
		if pkg != nil {
			p.Pkgs = append(p.Pkgs, pkg)
		}
	}
	sort.Slice(p.Pkgs, func(i, j int) bool { return p.Pkgs[i].Rel < p.Pkgs[j].Rel })
	sort.Strings(p.Problems)
	return p, nil
}

// buildOK evaluates a //go:build line for the default configuration with no extra tags (in
// particular without `verif`).
func buildOK(f *ast.File) bool {
	for _, cg := range f.Comments {
		if cg.Pos() >= f.Package {
			break
		}
		for _, c := range cg.List {
			if !constraint.IsGoBuild(c.Text) {
				continue
			}
			expr, err := constraint.Parse(c.Text)
			if err != nil {
				return true
			}
			return expr.Eval(func(tag string) bool {
				return tag == runtime.GOOS || tag == runtime.GOARCH || tag == "gc" || tag == "unix" ||
					(strings.HasPrefix(tag, "go1.") && tag != "go1.") // release tags
			})
		}
	}
	return true
}

// parseDir parses the non-test files of one directory (memoised). Returns nil when the directory
// has no usable Go files.
func (p *Program) parseDir(rel string) *Package {
	if pkg, ok := p.byRel[rel]; ok {
		return pkg
	}
	p.byRel[rel] = nil
	dir := filepath.Join(p.Repo, filepath.FromSlash(rel))
	ents, err := os.ReadDir(dir)
	if err != nil {
		return nil
	}
	pkg := &Package{Rel: rel, Path: p.Module + "/" + rel}
	seen := map[string]bool{}
	for _, e := range ents {
		name := e.Name()
		if e.IsDir() || !strings.HasSuffix(name, ".go") || strings.HasSuffix(name, "_test.go") ||
			strings.HasPrefix(name, ".") || strings.HasPrefix(name, "_") {
			continue
		}
		relFile := rel + "/" + name
		f, err := parser.ParseFile(p.Fset, filepath.Join(dir, name), nil, parser.ParseComments|parser.SkipObjectResolution)
		if f == nil || (err != nil && len(f.Decls) == 0) {
			p.Problems = append(p.Problems, "cannot parse "+relFile)
			continue
		}
		if err != nil {
			p.Problems = append(p.Problems, "syntax errors in "+relFile)
		}
		if !buildOK(f) {
			continue
		}
		pkg.Files = append(pkg.Files, &File{Rel: relFile, AST: f})
		for _, im := range f.Imports {
			path := strings.Trim(im.Path.Value, "\"`")
			if sub, ok := strings.CutPrefix(path, p.Module+"/"); ok && !seen[sub] {
				seen[sub] = true
				pkg.imports = append(pkg.imports, sub)
			}
		}
	}
	if len(pkg.Files) == 0 {
		return nil
	}
	sort.Strings(pkg.imports)
	p.byRel[rel] = pkg
	return pkg
}

// check type-checks pkg (memoised) with an importer that loads module-internal packages from
// the scanned tree, the standard library from GOROOT sources, and replaces everything else
// (third-party modules; used by cmd/textmapper → ls only) by an empty package.
func (p *Program) check(pkg *Package, stack []string) *types.Package {
	if pkg.Types != nil {
		return pkg.Types
	}
	for _, s := range stack {
		if s == pkg.Rel { // import cycle: cannot happen in code that compiles
			return types.NewPackage(pkg.Path, filepath.Base(pkg.Rel))
		}
	}
	stack = append(stack, pkg.Rel)
	conf := types.Config{
		Error:                    func(error) {}, // keep going
		FakeImportC:              true,
		DisableUnusedImportCheck: true,
		Importer: importerFunc(func(path string) (*types.Package, error) {
			if sub, ok := strings.CutPrefix(path, p.Module+"/"); ok {
				if dep := p.parseDir(sub); dep != nil {
					return p.check(dep, stack), nil
				}
				return p.fakePkg(path), nil
			}
			if first, _, _ := strings.Cut(path, "/"); !strings.Contains(first, ".") {
				if tp, err := p.std.Import(path); err == nil {
					return tp, nil
				}
			}
			return p.fakePkg(path), nil
		}),
	}
	info := &types.Info{
		Types: map[ast.Expr]types.TypeAndValue{},
		Defs:  map[*ast.Ident]types.Object{},
		Uses:  map[*ast.Ident]types.Object{},
	}
	var files []*ast.File
	for _, f := range pkg.Files {
		files = append(files, f.AST)
	}
	name := files[0].Name.Name
	tp, _ := conf.Check(pkg.Path, p.Fset, files, info)
	if tp == nil {
		tp = types.NewPackage(pkg.Path, name)
	}
	pkg.Types, pkg.Info = tp, info
	return tp
}

func (p *Program) fakePkg(path string) *types.Package {
	if tp, ok := p.fake[path]; ok {
		return tp
	}
	tp := types.NewPackage(path, filepath.Base(path))
	tp.MarkComplete()
	p.fake[path] = tp
	return tp
}

type importerFunc func(path string) (*types.Package, error)

func (f importerFunc) Import(path string) (*types.Package, error) { return f(path) }
