module tmverif/factgen

go 1.25
