// Command factgen regenerates lean/TmVerif/Facts/Generated.lean from the Go sources of the
// repository under verification ("Mode F — regenerated facts", DESIGN.md §1.2).
//
//	go run . -repo /repo -out /verif/lean/TmVerif/Facts/Generated.lean
//
// It is run by ./check (step 1 of EVERY property's check) and by setup.sh, therefore:
//
//   - it must be fast, std lib only, no network, no `go list`. A full run costs about 2 s (almost
//     all of it type-checking the standard library from source); therefore a stamp file under
//     os.TempDir() records the digest of every input (see inputDigest) together with the hash of the
//     output written, and the run stops after ~30 ms when neither changed (-force disables this).
//     The stamp is kept out of the Lean file so that the latter changes only when a fact changes;
//   - it must never fail because the scanned code merely changed: files that do not parse and
//     type errors are tolerated (parse failures are listed in `loadProblems`), the exit status is
//     non-zero only when the repository or the output file cannot be read / written;
//   - the generated Lean file contains DATA ONLY (lists of the records declared by hand in
//     lean/TmVerif/Facts/Types.lean, namespace TmVerif.Facts). It must compile on its own whatever
//     the scanned code looks like. What the models and proofs EXPECT of these facts lives in
//     hand-written files (Facts/Expect*.lean) and is proved in Props/Cxx.lean by `decide`; when
//     /repo changes a fact, `lake build` fails at exactly that obligation and nowhere else;
//   - the output is deterministic: every list is sorted, nothing depends on absolute paths, time
//     or map order. The file is only rewritten when its content changes.
//
// # Adding an extractor
//
// Every group of facts is produced by one extractor in its own Go file (c18.go: map-range sites,
// goroutines, global writes, environment calls). To add one (C22 fatal sites, C17 template guards,
// constants the models depend on, …):
//
//  1. declare the record type in lean/TmVerif/Facts/Types.lean (structure …, deriving DecidableEq);
//
//  2. add a file xyz.go here with
//
//     func init() { register("C22 fatal sites", extractFatal) }
//     func extractFatal(p *Program, w *Section) { … w.Declare("fatalSites", "FatalSite"); … w.Def("fatalSites", "FatalSite", items) … }
//
//     An extractor reads the loaded program (p.Pkgs: parsed files, go/types info when available)
//     and appends definitions to ITS OWN section; sections are written in the order of their
//     titles. It must not panic on unexpected code (main recovers and replaces the section by
//     empty definitions listed in `loadProblems`, so declare the names first with w.Declare);
//
//     An extractor whose facts only one property needs registers with registerFile(title, "GeneratedCxx.lean", fn)
//     instead: its definitions go to that file (next to the -out file), which only that property's modules
//     import, so that nothing it writes can break the build of the others (c17.go);
//
//  3. if it reads files other than .go/.tmpl/go.mod, add their extension to digestExts (main.go);
//
//  4. never remove or rename a definition that a Lean file imports. `-v` prints a listing with
//     line numbers to stderr (used to find the hashes for the expectation tables).
//
// Packages scanned: the generation pipeline (everything cmd/textmapper's `generate` can reach):
// see pipelineRoots in load.go. *_test.go files and files carrying the `verif` build tag (the
// add-only hook files of this framework) are excluded.
package main

import (
	"bytes"
	"crypto/sha256"
	"flag"
	"fmt"
	"os"
	"path/filepath"
	"runtime"
	"slices"
	"sort"
	"strings"
)

// Section collects the Lean definitions of one extractor.
type Section struct {
	title    string
	buf      bytes.Buffer
	declared []decl // name, type: used for the empty fallback
}

type decl struct{ name, typ string }

// Declare announces a definition `name : List elem` so that a crashed extractor still yields a
// compilable (empty) definition.
func (s *Section) Declare(name, elem string) { s.declared = append(s.declared, decl{name, elem}) }

// Comment writes a Lean line comment.
func (s *Section) Comment(format string, args ...any) {
	for _, line := range strings.Split(fmt.Sprintf(format, args...), "\n") {
		fmt.Fprintf(&s.buf, "-- %s\n", line)
	}
}

// Def writes `def name : List elem := [items…]`, one item per line. items are Lean terms and are
// sorted and de-duplicated here.
func (s *Section) Def(name, elem string, items []string) {
	items = append([]string(nil), items...)
	sort.Strings(items)
	items = slices.Compact(items)
	fmt.Fprintf(&s.buf, "def %s : List %s := [", name, elem)
	for i, it := range items {
		if i > 0 {
			s.buf.WriteString(",")
		}
		s.buf.WriteString("\n  " + it)
	}
	if len(items) > 0 {
		s.buf.WriteString("\n")
	}
	s.buf.WriteString("]\n\n")
}

type extractor struct {
	title string
	fn    func(p *Program, w *Section)
	file  string // "" = a section of the -out file; otherwise a file of its own next to it (registerFile)
}

var extractors []extractor

func register(title string, fn func(p *Program, w *Section)) {
	extractors = append(extractors, extractor{title: title, fn: fn})
}

// registerFile registers an extractor whose facts go to a Lean file of their own (`file`, written next
// to the -out file, same namespace and header) instead of a section of the -out file, so that only the
// modules that import that file depend on it. A crash of the extractor or a problem it reports is listed
// in its own file, never in the -out file.
func registerFile(title, file string, fn func(p *Program, w *Section)) {
	extractors = append(extractors, extractor{title: title, fn: fn, file: file})
}

// writeIfChanged writes content to path unless the file already has it.
func writeIfChanged(path string, content []byte) error {
	if old, err := os.ReadFile(path); err == nil && bytes.Equal(old, content) {
		return nil
	}
	tmp := path + ".tmp"
	if err := os.WriteFile(tmp, content, 0o644); err != nil {
		return err
	}
	return os.Rename(tmp, path)
}

// leanStr renders a Lean string literal.
func leanStr(s string) string {
	var b strings.Builder
	b.WriteByte('"')
	for _, r := range s {
		switch {
		case r == '"':
			b.WriteString(`\"`)
		case r == '\\':
			b.WriteString(`\\`)
		case r == '\n':
			b.WriteString(`\n`)
		case r == '\t':
			b.WriteString(`\t`)
		case r < 0x20 || r == 0x7f:
			fmt.Fprintf(&b, `\x%02x`, r)
		default:
			b.WriteRune(r)
		}
	}
	b.WriteByte('"')
	return b.String()
}

// leanRec renders an anonymous-constructor term ⟨"a", "b", …⟩ of string fields.
func leanRec(fields ...string) string {
	q := make([]string, len(fields))
	for i, f := range fields {
		q[i] = leanStr(f)
	}
	return "⟨" + strings.Join(q, ", ") + "⟩"
}

func runExtractor(e extractor, p *Program) (sec *Section, problem string) {
	sec = &Section{title: e.title}
	defer func() {
		if r := recover(); r != nil {
			problem = fmt.Sprintf("extractor %q crashed: %v", e.title, r)
			empty := &Section{title: e.title}
			empty.Comment("extractor crashed; definitions left empty (see loadProblems)")
			for _, d := range sec.declared {
				empty.Def(d.name, d.typ, nil)
			}
			sec = empty
		}
	}()
	e.fn(p, sec)
	return sec, ""
}

const trailer = "end TmVerif.Facts\n"

// digestExts: kinds of repository files that extractors read. An extractor that reads another kind
// of file must add its extension here, otherwise a change of such a file does not regenerate.
var digestExts = []string{".go", ".tmpl", ".mod"}

// inputDigest hashes everything the output depends on: the relative path and content of every
// file of the repository with one of digestExts (tests excluded), the Go version (std lib
// sources) and the sources of this program (found in the working directory under `go run .`).
func inputDigest(repo string) (string, error) {
	h := sha256.New()
	fmt.Fprintf(h, "factgen %s\n", runtime.Version())
	if own, _ := filepath.Glob("*.go"); len(own) > 0 {
		sort.Strings(own)
		for _, f := range own {
			b, _ := os.ReadFile(f)
			fmt.Fprintf(h, "own %s %d\n", f, len(b))
			h.Write(b)
		}
	}
	var files []string
	err := filepath.WalkDir(repo, func(path string, d os.DirEntry, err error) error {
		if err != nil {
			return nil // unreadable entries are skipped
		}
		name := d.Name()
		if d.IsDir() {
			if path != repo && (strings.HasPrefix(name, ".") || name == "node_modules" || name == "testdata") {
				return filepath.SkipDir
			}
			return nil
		}
		if strings.HasSuffix(name, "_test.go") || !slices.Contains(digestExts, filepath.Ext(name)) {
			return nil
		}
		files = append(files, path)
		return nil
	})
	if err != nil {
		return "", err
	}
	if _, err := os.Stat(filepath.Join(repo, "go.mod")); err != nil {
		return "", err
	}
	sort.Strings(files)
	for _, f := range files {
		b, err := os.ReadFile(f)
		if err != nil {
			continue
		}
		rel, _ := filepath.Rel(repo, f)
		fmt.Fprintf(h, "file %s %d\n", filepath.ToSlash(rel), len(b))
		h.Write(b)
	}
	return fmt.Sprintf("%x", h.Sum(nil)), nil
}

// The stamp of an output file: "<input digest> <sha256 of the output>", kept under os.TempDir().
func stampText(digest string, output []byte) string {
	return fmt.Sprintf("%s %x", digest, sha256.Sum256(output))
}

func stampPath(out string) string {
	abs, err := filepath.Abs(out)
	if err != nil {
		abs = out
	}
	return filepath.Join(os.TempDir(), "tmverif-factgen", fmt.Sprintf("%x", sha256.Sum256([]byte(abs)))[:24]+".stamp")
}

func readStamp(out string) string {
	b, _ := os.ReadFile(stampPath(out))
	return string(b)
}

func writeStamp(out, text string) {
	p := stampPath(out)
	if os.MkdirAll(filepath.Dir(p), 0o755) == nil {
		os.WriteFile(p, []byte(text), 0o644) // best effort: a missing stamp only costs a full run
	}
}

func main() {
	repo := flag.String("repo", "/repo", "root of the repository to scan")
	out := flag.String("out", "", "Lean file to write (default: stdout)")
	force := flag.Bool("force", false, "regenerate even when the inputs are unchanged")
	verbose := flag.Bool("v", false, "print a listing of the sites with line numbers to stderr (implies -force)")
	flag.Parse()

	digest, err := inputDigest(*repo)
	if err != nil {
		fmt.Fprintln(os.Stderr, "factgen:", err)
		os.Exit(1)
	}
	if *out != "" && !*force && !*verbose {
		if old, err := os.ReadFile(*out); err == nil && readStamp(*out) == stampText(digest, old) {
			missing := false
			for _, e := range extractors {
				if e.file != "" {
					if _, err := os.Stat(filepath.Join(filepath.Dir(*out), e.file)); err != nil {
						missing = true
					}
				}
			}
			if !missing {
				return
			}
		}
	}

	p, err := load(*repo, *verbose)
	if err != nil {
		fmt.Fprintln(os.Stderr, "factgen:", err)
		os.Exit(1)
	}
	sort.SliceStable(extractors, func(i, j int) bool { return extractors[i].title < extractors[j].title })

	var body bytes.Buffer
	for _, e := range extractors {
		if e.file != "" {
			continue
		}
		sec, problem := runExtractor(e, p)
		if problem != "" {
			p.Problems = append(p.Problems, problem)
		}
		fmt.Fprintf(&body, "/-! ## %s -/\n\n", sec.title)
		body.Write(sec.buf.Bytes())
	}
	// extractors with a file of their own (only when writing files)
	for _, e := range extractors {
		if e.file == "" {
			continue
		}
		sec, problem := runExtractor(e, p)
		if *out == "" {
			continue
		}
		var fb bytes.Buffer
		fb.WriteString("-- GENERATED by tools/factgen from the Go sources of the repository under verification.\n")
		fb.WriteString("-- Regenerated by every ./check run and by setup.sh; do not edit. Data only, no proofs.\n")
		fb.WriteString("import TmVerif.Facts.Types\n")
		fb.WriteString("set_option maxRecDepth 8192\n")
		fb.WriteString("namespace TmVerif.Facts\n\n")
		fmt.Fprintf(&fb, "/-! ## %s -/\n\n", sec.title)
		if problem != "" {
			fmt.Fprintf(&fb, "-- %s\n", strings.ReplaceAll(problem, "\n", " "))
		}
		fb.Write(sec.buf.Bytes())
		fb.WriteString(trailer)
		os.MkdirAll(filepath.Dir(*out), 0o755)
		if err := writeIfChanged(filepath.Join(filepath.Dir(*out), e.file), fb.Bytes()); err != nil {
			fmt.Fprintln(os.Stderr, "factgen:", err) // never fatal for the other extractors
		}
	}

	var b bytes.Buffer
	b.WriteString("-- GENERATED by tools/factgen from the Go sources of the repository under verification.\n")
	b.WriteString("-- Regenerated by every ./check run and by setup.sh; do not edit. Data only, no proofs.\n")
	b.WriteString("import TmVerif.Facts.Types\n")
	b.WriteString("set_option maxRecDepth 4096\n")
	b.WriteString("namespace TmVerif.Facts\n\n")
	fmt.Fprintf(&b, "/-- Module path of the scanned repository. -/\ndef modulePath : String := %s\n\n", leanStr(p.Module))
	fmt.Fprintf(&b, "/-- How expressions were typed. -/\ndef typeInfo : String := %s\n\n", leanStr(p.TypeInfo))
	hdr := &Section{}
	hdr.Comment("Packages scanned (relative directories; non-test files without the `verif` build tag).")
	var pk []string
	for _, pkg := range p.Pkgs {
		if pkg.Pipeline {
			pk = append(pk, leanStr(pkg.Rel))
		}
	}
	hdr.Def("scannedPackages", "String", pk)
	hdr.Comment("Files that could not be parsed and extractors that crashed (normally empty).")
	var pr []string
	for _, s := range p.Problems {
		pr = append(pr, leanStr(s))
	}
	hdr.Def("loadProblems", "String", pr)
	b.Write(hdr.buf.Bytes())
	b.Write(body.Bytes())
	b.WriteString(trailer)

	if *out == "" {
		os.Stdout.Write(b.Bytes())
		return
	}
	if old, err := os.ReadFile(*out); err == nil && bytes.Equal(old, b.Bytes()) {
		writeStamp(*out, stampText(digest, old))
		return
	}
	if err := os.MkdirAll(filepath.Dir(*out), 0o755); err != nil {
		fmt.Fprintln(os.Stderr, "factgen:", err)
		os.Exit(1)
	}
	tmp := *out + ".tmp"
	if err := os.WriteFile(tmp, b.Bytes(), 0o644); err != nil {
		fmt.Fprintln(os.Stderr, "factgen:", err)
		os.Exit(1)
	}
	if err := os.Rename(tmp, *out); err != nil {
		fmt.Fprintln(os.Stderr, "factgen:", err)
		os.Exit(1)
	}
	writeStamp(*out, stampText(digest, b.Bytes()))
}
