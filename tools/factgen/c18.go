package main

// Facts for property C18 (generation is deterministic): every construct of the generation pipeline
// through which Go's randomised map order, the scheduler, the clock or the environment could reach
// a generated file.
//
//	mapRangeSites         for … range X with X of map type (also X = maps.Keys/Values/All(…))
//	unresolvedRangeSites  range statements whose operand could not be typed (normally empty)
//	goStmtSites           go statements and select statements
//	globalWriteSites      assignments rooted at package-level variables outside init (best effort)
//	timeSites             references to time.Now, math/rand, os.Getenv, … (envFuncs)
//	hiddenMapIterSites    map iteration without a `range` over a map in the source: references to
//	                      maps.Keys/Values/All, (reflect.Value).MapRange/MapKeys, (*sync.Map).Range
//	packageVarSites       package-level variables of reference type (map, slice, pointer, chan, interface)
//	                      outside parsers/ (generated tables) and cmd/ (flags): state that could outlive one
//	                      generation
//
// Type information comes from go/types: module-internal packages are checked from the scanned tree,
// the standard library from GOROOT sources (importer "source"), third-party imports are replaced
// by empty packages. What this can miss: a range over a value of type-parameter type whose core
// type is a map; map iteration inside third-party code or behind an iterator value that was built in
// another package; writes to package-level
// state through method calls, pointers taken earlier, or `delete`/`clear` (only assignments and
// ++/-- are recognised).

import (
	"bytes"
	"crypto/sha256"
	"fmt"
	"go/ast"
	"go/printer"
	"go/token"
	"go/types"
	"os"
	"strings"
)

func init() {
	register("C18 determinism: map ranges, goroutines, global writes, environment", extractC18)
}

// envFuncs: package path → member names ("*" = every member).
var envFuncs = map[string][]string{
	"time":         {"Now", "Since", "Until"},
	"math/rand":    {"*"},
	"math/rand/v2": {"*"},
	"crypto/rand":  {"*"},
	"os":           {"Getenv", "LookupEnv", "Environ", "Getpid", "Getppid", "Hostname", "Getwd", "Getuid", "Getgid", "TempDir", "UserHomeDir", "Executable"},
	"runtime":      {"NumCPU", "GOMAXPROCS", "NumGoroutine"},
	// the working directory / location of the binary
	"path/filepath": {"Abs"},
}

// hiddenIter: functions whose result enumerates a map in runtime order.
var hiddenIter = map[string][]string{
	"maps": {"Keys", "Values", "All"},
}

func isHiddenIter(path, name string) bool {
	for _, n := range hiddenIter[path] {
		if n == name {
			return true
		}
	}
	return false
}

func isEnvFunc(path, name string) bool {
	for _, n := range envFuncs[path] {
		if n == "*" || n == name {
			return true
		}
	}
	return false
}

// stmtHash is the first 16 hex digits of the sha256 of the node as printed by go/printer (which
// omits comments when given a bare node) with every run of white space collapsed to one blank, so
// that re-indenting, re-wrapping or commenting a loop does not change its hash but any change of
// its tokens does.
func stmtHash(fset *token.FileSet, n ast.Node) string {
	var buf bytes.Buffer
	if err := printer.Fprint(&buf, fset, n); err != nil {
		return "unprintable"
	}
	norm := strings.Join(strings.Fields(buf.String()), " ")
	return fmt.Sprintf("%x", sha256.Sum256([]byte(norm)))[:16]
}

func recvName(e ast.Expr) string {
	for {
		switch t := e.(type) {
		case *ast.StarExpr:
			e = t.X
		case *ast.ParenExpr:
			e = t.X
		case *ast.IndexExpr:
			e = t.X
		case *ast.IndexListExpr:
			e = t.X
		case *ast.Ident:
			return t.Name
		default:
			return "?"
		}
	}
}

// declName names a top-level declaration: F, Recv.M, var:x (initialiser of x), "-" otherwise.
func declName(d ast.Decl) string {
	switch d := d.(type) {
	case *ast.FuncDecl:
		if d.Recv != nil && len(d.Recv.List) > 0 {
			return recvName(d.Recv.List[0].Type) + "." + d.Name.Name
		}
		return d.Name.Name
	case *ast.GenDecl:
		for _, s := range d.Specs {
			if vs, ok := s.(*ast.ValueSpec); ok && len(vs.Names) > 0 {
				return "var:" + vs.Names[0].Name
			}
		}
	}
	return "-"
}

func isInit(d ast.Decl) bool {
	fd, ok := d.(*ast.FuncDecl)
	return ok && fd.Recv == nil && fd.Name.Name == "init"
}

// importPathOf resolves the package an identifier X in `X.Sel` refers to ("" when X is not a
// package name). Uses go/types when available and the file's import table otherwise.
func importPathOf(pkg *Package, f *ast.File, x *ast.Ident) string {
	if pkg.Info != nil {
		if obj, ok := pkg.Info.Uses[x]; ok {
			if pn, ok := obj.(*types.PkgName); ok {
				return pn.Imported().Path()
			}
			return ""
		}
	}
	for _, im := range f.Imports {
		path := strings.Trim(im.Path.Value, "\"`")
		name := path[strings.LastIndex(path, "/")+1:]
		if name == "v2" {
			name = "rand"
		}
		if im.Name != nil {
			name = im.Name.Name
		}
		if name == x.Name {
			return path
		}
	}
	return ""
}

// rootVar returns the package-level variable an assignable expression is rooted at.
func rootVar(pkg *Package, f *ast.File, e ast.Expr, pkgVars map[string]bool) (string, bool) {
	for {
		switch t := e.(type) {
		case *ast.ParenExpr:
			e = t.X
		case *ast.StarExpr:
			e = t.X
		case *ast.IndexExpr:
			e = t.X
		case *ast.SliceExpr:
			e = t.X
		case *ast.SelectorExpr:
			if x, ok := t.X.(*ast.Ident); ok {
				if path := importPathOf(pkg, f, x); path != "" {
					if pkg.Info != nil {
						if _, isVar := pkg.Info.Uses[t.Sel].(*types.Var); !isVar {
							return "", false
						}
					}
					return path + "." + t.Sel.Name, true
				}
			}
			e = t.X
		case *ast.Ident:
			if t.Name == "_" {
				return "", false
			}
			if pkg.Info != nil {
				obj := pkg.Info.Uses[t]
				if obj == nil {
					obj = pkg.Info.Defs[t]
				}
				if v, ok := obj.(*types.Var); ok {
					if v.Pkg() != nil && v.Parent() == v.Pkg().Scope() {
						return t.Name, true
					}
					return "", false
				}
				if obj != nil {
					return "", false
				}
			}
			return t.Name, pkgVars[t.Name] // untyped fallback: by name (shadowing not seen)
		default:
			return "", false
		}
	}
}

func extractC18(p *Program, w *Section) {
	w.Declare("mapRangeSites", "MapRangeSite")
	w.Declare("unresolvedRangeSites", "MapRangeSite")
	w.Declare("goStmtSites", "GoStmtSite")
	w.Declare("globalWriteSites", "GlobalWriteSite")
	w.Declare("timeSites", "CallSite")
	w.Declare("hiddenMapIterSites", "CallSite")
	w.Declare("packageVarSites", "PackageVarSite")
	var mapSites, unresolved, goSites, writes, calls, hidden, pkgState []string

	for _, pkg := range p.Pkgs {
		if !pkg.Pipeline {
			continue
		}
		pkgVars := map[string]bool{}
		for _, f := range pkg.Files {
			for _, d := range f.AST.Decls {
				if gd, ok := d.(*ast.GenDecl); ok && gd.Tok == token.VAR {
					for _, s := range gd.Specs {
						for _, n := range s.(*ast.ValueSpec).Names {
							pkgVars[n.Name] = true
						}
					}
				}
			}
		}
		if !strings.HasPrefix(pkg.Rel, "parsers/") && !strings.HasPrefix(pkg.Rel, "cmd/") {
			for _, f := range pkg.Files {
				for _, d := range f.AST.Decls {
					gd, ok := d.(*ast.GenDecl)
					if !ok || gd.Tok != token.VAR {
						continue
					}
					for _, sp := range gd.Specs {
						for _, n := range sp.(*ast.ValueSpec).Names {
							if n.Name == "_" {
								continue
							}
							if kind := refKind(pkg, n); kind != "" {
								pkgState = append(pkgState, leanRec(f.Rel, n.Name, kind))
							}
						}
					}
				}
			}
		}
		for _, f := range pkg.Files {
			for _, d := range f.AST.Decls {
				fn := declName(d)
				inInit := isInit(d)
				ctx := "" // hash of the enclosing declaration, computed when a site needs it
				declHash := func() string {
					if ctx == "" {
						var n ast.Node = d
						switch d := d.(type) { // doc comments are not part of the hash
						case *ast.FuncDecl:
							c := *d
							c.Doc = nil
							n = &c
						case *ast.GenDecl:
							c := *d
							c.Doc = nil
							n = &c
						}
						ctx = stmtHash(p.Fset, n)
					}
					return ctx
				}
				ast.Inspect(d, func(n ast.Node) bool {
					switch n := n.(type) {
					case *ast.RangeStmt:
						kind := classifyRange(pkg, f.AST, n.X)
						if p.Verbose && kind != rangeOther {
							fmt.Fprintf(os.Stderr, "%s:%d\t%s\t%s\tctx=%s\t%s\n", f.Rel, p.Fset.Position(n.Pos()).Line, fn,
								stmtHash(p.Fset, n), declHash(), map[rangeKind]string{rangeMap: "map", rangeUnknown: "UNRESOLVED"}[kind])
						}
						switch kind {
						case rangeMap:
							mapSites = append(mapSites, leanRec(f.Rel, fn, stmtHash(p.Fset, n), "", declHash()))
						case rangeUnknown:
							unresolved = append(unresolved, leanRec(f.Rel, fn, stmtHash(p.Fset, n), "", declHash()))
						}
					case *ast.GoStmt:
						goSites = append(goSites, leanRec(f.Rel, fn, "go", stmtHash(p.Fset, n)))
					case *ast.SelectStmt:
						goSites = append(goSites, leanRec(f.Rel, fn, "select", stmtHash(p.Fset, n)))
					case *ast.AssignStmt:
						if n.Tok == token.DEFINE || inInit {
							break
						}
						for _, lhs := range n.Lhs {
							if v, ok := rootVar(pkg, f.AST, lhs, pkgVars); ok {
								writes = append(writes, leanRec(f.Rel, fn, v, exprString(p.Fset, lhs)))
							}
						}
					case *ast.IncDecStmt:
						if inInit {
							break
						}
						if v, ok := rootVar(pkg, f.AST, n.X, pkgVars); ok {
							writes = append(writes, leanRec(f.Rel, fn, v, exprString(p.Fset, n.X)))
						}
					case *ast.SelectorExpr:
						if x, ok := n.X.(*ast.Ident); ok {
							if path := importPathOf(pkg, f.AST, x); path != "" {
								if isEnvFunc(path, n.Sel.Name) {
									calls = append(calls, leanRec(f.Rel, fn, path+"."+n.Sel.Name))
								}
								if isHiddenIter(path, n.Sel.Name) {
									hidden = append(hidden, leanRec(f.Rel, fn, path+"."+n.Sel.Name))
								}
								break
							}
						}
						if pkg.Info != nil && (n.Sel.Name == "MapRange" || n.Sel.Name == "MapKeys" || n.Sel.Name == "Range") {
							if tv, ok := pkg.Info.Types[n.X]; ok && tv.Type != nil {
								switch t := strings.TrimPrefix(tv.Type.String(), "*"); {
								case t == "reflect.Value" && n.Sel.Name != "Range":
									hidden = append(hidden, leanRec(f.Rel, fn, "reflect.Value."+n.Sel.Name))
								case t == "sync.Map" && n.Sel.Name == "Range":
									hidden = append(hidden, leanRec(f.Rel, fn, "sync.Map.Range"))
								}
							}
						}
					}
					return true
				})
			}
		}
	}
	w.Comment("`for … range X` with X of map type; ⟨file, enclosing declaration, hash of the loop, kind (unused), hash of the declaration⟩.")
	w.Def("mapRangeSites", "MapRangeSite", mapSites)
	w.Comment("range statements whose operand go/types could not type (treated as uncovered).")
	w.Def("unresolvedRangeSites", "MapRangeSite", unresolved)
	w.Comment("`go` and `select` statements; ⟨file, declaration, \"go\"|\"select\", hash⟩.")
	w.Def("goStmtSites", "GoStmtSite", goSites)
	w.Comment("assignments rooted at package-level variables outside `init`; ⟨file, declaration, variable, target⟩.")
	w.Def("globalWriteSites", "GlobalWriteSite", writes)
	w.Comment("references to clock / randomness / environment / unordered-iteration functions; ⟨file, declaration, callee⟩.")
	w.Def("timeSites", "CallSite", calls)
	w.Comment("map iteration hidden behind an iterator / reflection / sync.Map; ⟨file, declaration, callee⟩.")
	w.Def("hiddenMapIterSites", "CallSite", hidden)
	w.Comment("package-level variables of reference type outside parsers/ and cmd/; ⟨file, name, kind⟩.")
	w.Def("packageVarSites", "PackageVarSite", pkgState)
}

// refKind classifies the type of a package-level variable: "map", "slice", "pointer", "chan", "interface",
// "sync" (a struct of package sync), "untyped" when go/types has no type for it, "" for value types.
func refKind(pkg *Package, n *ast.Ident) string {
	if pkg.Info == nil {
		return "untyped"
	}
	obj := pkg.Info.Defs[n]
	if obj == nil || obj.Type() == nil {
		return "untyped"
	}
	t := obj.Type()
	if named, ok := t.(*types.Named); ok && named.Obj().Pkg() != nil && named.Obj().Pkg().Path() == "sync" {
		return "sync"
	}
	switch u := t.Underlying().(type) {
	case *types.Map:
		return "map"
	case *types.Slice:
		return "slice"
	case *types.Pointer:
		return "pointer"
	case *types.Chan:
		return "chan"
	case *types.Interface:
		return "interface"
	case *types.Basic:
		if u.Kind() == types.Invalid {
			return "untyped"
		}
	}
	return ""
}

func exprString(fset *token.FileSet, e ast.Expr) string {
	var buf bytes.Buffer
	if err := printer.Fprint(&buf, fset, e); err != nil {
		return "?"
	}
	s := strings.Join(strings.Fields(buf.String()), " ")
	if len(s) > 60 {
		s = s[:60] + "…"
	}
	return s
}

type rangeKind int

const (
	rangeOther rangeKind = iota
	rangeMap
	rangeUnknown
)

func classifyRange(pkg *Package, f *ast.File, x ast.Expr) rangeKind {
	// maps.Keys(m) / maps.Values(m) / maps.All(m): iteration in map order behind an iterator.
	if call, ok := x.(*ast.CallExpr); ok {
		fun := call.Fun
		if ix, ok := fun.(*ast.IndexExpr); ok {
			fun = ix.X
		}
		if ix, ok := fun.(*ast.IndexListExpr); ok {
			fun = ix.X
		}
		if sel, ok := fun.(*ast.SelectorExpr); ok {
			if id, ok := sel.X.(*ast.Ident); ok && importPathOf(pkg, f, id) == "maps" &&
				(sel.Sel.Name == "Keys" || sel.Sel.Name == "Values" || sel.Sel.Name == "All") {
				return rangeMap
			}
		}
	}
	if pkg.Info == nil {
		return rangeUnknown
	}
	tv, ok := pkg.Info.Types[x]
	if !ok || tv.Type == nil {
		return rangeUnknown
	}
	t := tv.Type
	if b, ok := t.(*types.Basic); ok && b.Kind() == types.Invalid {
		return rangeUnknown
	}
	u := t.Underlying()
	if ptr, ok := u.(*types.Pointer); ok { // range over *[N]T
		u = ptr.Elem().Underlying()
	}
	switch u.(type) {
	case *types.Map:
		return rangeMap
	case *types.Interface:
		if _, isTP := t.(*types.TypeParam); isTP {
			return rangeUnknown // core type not inspected
		}
	}
	return rangeOther
}
