package main

// Facts for property C17 (generated Go code builds), decidable fragment: definition/use guard consistency of
// the Go templates (DESIGN.md §4 C17).
//
// For every Go file of languages["go"] (gen/templates.go) the file template is parsed with
// text/template/parse together with go_shared, exactly as gen.Generate combines them, and "executed"
// symbolically from the top of the file template: both branches of every {{if}} / {{with}} / {{range}} are
// walked, {{template "x" …}} and {{block "x" …}} are followed into their define blocks, and every piece of
// template text is tagged with the conjunction of the guards on the way to it.
//
//	c17Atoms  the distinct guard pipelines (canonical text; `$.X` = `.X` where `$` is the grammar)
//	c17Files  ⟨id, output file, template, Go package, condition of language.templates⟩
//	c17Names  ⟨id, package, name⟩ identifiers DECLARED at top level by template text: `func`, `type`, `var`,
//	          `const` at the start of a line (members of `const (`/`var (` blocks too), methods as Recv.Name,
//	          struct fields as Type.field. A `*` stands for a part printed by a template action
//	          (`Parse*`, `At*`, `*State`); names that consist of an action only are not recorded.
//	c17Tmpls  the define blocks that contain declarations or uses (blocks of go_shared count as their caller)
//	c17Groups per identifier: its declaration sites ⟨name, file, define block, kind, guard⟩ and its use sites
//	          ⟨name, file, define block, guard⟩ = occurrences of the identifier elsewhere in a file of the
//	          same generated package: plain identifiers, `{{pkg "x"}}Name` / `{{template "tokenPkg" .}}Name`
//	          (other package), `v.member` where v is the receiver or a parameter of the enclosing function
//	          whose type is a template-declared type. Comments, string and rune literals are skipped.
//	          A call `v.m(` of a method that NO template declares for the template-declared type of v is a use
//	          of a name without declaration sites (consistent only if the call can never be generated).
//	          Labels are declared and used like identifiers, named `Func#label`; uses = goto / break / continue
//	c17LabelNames name ids of the labels (Go also requires every label to be used)
//	c17DefSigs one readable line per declaration site (pinned by the expectation table)
//	c17Hashes hashes of gen/templates.go declarations the expectations rely on
//
// Guards: `and`/`or`/`not` are structural, everything else is an atom. A pipeline that mentions the range
// element, a `with` value or a template variable is not one Boolean of the grammar: its atom is prefixed with
// `[local] ` (use) or `[local-def] ` (definition), so the two never coincide. `{{range P}}` contributes
// `nonempty P`; after `{{if C}}{{continue}}{{end}}` directly in the body of a range over P the rest of the
// body is guarded by `some P (not C)` ("the rest runs for at least one element").
//
// Unknown constructs become opaque atoms, parse failures are listed in c17Problems; nothing here can fail.

import (
	"crypto/sha256"
	"fmt"
	"go/ast"
	"go/token"
	"os"
	"path/filepath"
	"sort"
	"strconv"
	"strings"
	"text/template/parse"
	"unicode"
	"unicode/utf8"
)

func init() {
	// A file of its own (Facts/GeneratedC17.lean): only the C17 modules import it.
	registerFile("C17 template guards: definitions and uses of Go identifiers in gen/templates/go_*.go.tmpl", "GeneratedC17.lean", extractC17)
}

// ---- formulas

type c17F struct {
	op   byte // 't' true, 'a' atom, 'n' not, '&', '|'
	atom string
	sub  []*c17F
}

var c17True = &c17F{op: 't'}

func c17Atom(s string) *c17F { return &c17F{op: 'a', atom: s} }
func c17Not(f *c17F) *c17F {
	if f.op == 'n' {
		return f.sub[0]
	}
	return &c17F{op: 'n', sub: []*c17F{f}}
}
func c17Bin(op byte, fs []*c17F) *c17F {
	var keep []*c17F
	seen := map[string]bool{}
	var flat []*c17F
	var add func(f *c17F)
	add = func(f *c17F) {
		if f.op == op {
			for _, g := range f.sub {
				add(g)
			}
			return
		}
		flat = append(flat, f)
	}
	for _, f := range fs {
		add(f)
	}
	for _, f := range flat {
		if f.op == 't' && op == '&' {
			continue
		}
		k := f.key()
		if seen[k] {
			continue
		}
		seen[k] = true
		keep = append(keep, f)
	}
	if len(keep) == 0 {
		if op == '&' {
			return c17True
		}
		return c17Not(c17True)
	}
	ret := keep[len(keep)-1]
	for i := len(keep) - 2; i >= 0; i-- {
		ret = &c17F{op: op, sub: []*c17F{keep[i], ret}}
	}
	return ret
}

func (f *c17F) key() string {
	switch f.op {
	case 't':
		return "T"
	case 'a':
		return "<" + f.atom + ">"
	case 'n':
		return "!" + f.sub[0].key()
	}
	return "(" + f.sub[0].key() + string(f.op) + f.sub[1].key() + ")"
}

func (f *c17F) atoms(into map[string]bool) {
	if f.op == 'a' {
		into[f.atom] = true
	}
	for _, s := range f.sub {
		s.atoms(into)
	}
}

func (f *c17F) lean(ids map[string]int) string {
	switch f.op {
	case 't':
		return "GF.tt"
	case 'a':
		return fmt.Sprintf("(GF.atom %d)", ids[f.atom])
	case 'n':
		return "(GF.not " + f.sub[0].lean(ids) + ")"
	case '&':
		return "(GF.and " + f.sub[0].lean(ids) + " " + f.sub[1].lean(ids) + ")"
	}
	return "(GF.or " + f.sub[0].lean(ids) + " " + f.sub[1].lean(ids) + ")"
}

// pretty is the human-readable rendering used by -v.
func (f *c17F) pretty() string {
	switch f.op {
	case 't':
		return "true"
	case 'a':
		return f.atom
	case 'n':
		return "¬(" + f.sub[0].pretty() + ")"
	case '&':
		return f.sub[0].pretty() + " ∧ " + f.sub[1].pretty()
	}
	return "(" + f.sub[0].pretty() + " ∨ " + f.sub[1].pretty() + ")"
}

// ---- symbolic execution of a template

type c17Ctx struct {
	dotRoot, dollarRoot bool
	rangeOver           string           // canonical pipeline of the innermost enclosing range ("" outside / not global)
	rangeElem           string           // its element variable ("$x"), "" when none is declared
	vars                map[string]*c17F // template variables declared once with `:=` → formula of their pipeline
}

type c17Seg struct {
	text  string // text, or "\x00" for the output of an action, or "\x01pkg\x02"
	guard *c17F
	tmpl  string
}

type c17Walker struct {
	shared     map[string]bool // define blocks of go_shared: text in them is attributed to the calling block
	reassigned map[string]bool // variables that are the target of `{{$x = …}}` somewhere
	trees      map[string]*parse.Tree
	segs       []c17Seg
	depth      int
	problems   *[]string
	file       string
}

// c17Render prints a node canonically and reports whether it depends only on the grammar (root data).
func c17Render(n parse.Node, ctx c17Ctx) (string, bool) {
	switch n := n.(type) {
	case *parse.FieldNode:
		return n.String(), ctx.dotRoot
	case *parse.DotNode:
		return ".", ctx.dotRoot
	case *parse.VariableNode:
		if n.Ident[0] == "$" {
			if ctx.dollarRoot {
				if len(n.Ident) == 1 {
					return ".", true
				}
				return "." + strings.Join(n.Ident[1:], "."), true
			}
			return n.String(), false
		}
		return n.String(), false
	case *parse.ChainNode:
		s, g := c17Render(n.Node, ctx)
		if _, isPipe := n.Node.(*parse.PipeNode); isPipe {
			s = "(" + s + ")"
		}
		return s + "." + strings.Join(n.Field, "."), g
	case *parse.PipeNode:
		if len(n.Decl) > 0 {
			return n.String(), false
		}
		var parts []string
		global := true
		for _, c := range n.Cmds {
			s, g := c17Render(c, ctx)
			parts = append(parts, s)
			global = global && g
		}
		return strings.Join(parts, " | "), global
	case *parse.CommandNode:
		var parts []string
		global := true
		for _, a := range n.Args {
			s, g := c17Render(a, ctx)
			if _, isPipe := a.(*parse.PipeNode); isPipe {
				s = "(" + s + ")"
			}
			parts = append(parts, s)
			global = global && g
		}
		return strings.Join(parts, " "), global
	case *parse.IdentifierNode, *parse.StringNode, *parse.NumberNode, *parse.BoolNode, *parse.NilNode:
		return n.String(), true
	}
	return n.String(), false
}

func c17MkAtom(s string, global bool) *c17F {
	s = strings.Join(strings.Fields(s), " ")
	if !global {
		s = "[local] " + s
	}
	return c17Atom(s)
}

func c17ArgFormula(n parse.Node, ctx c17Ctx) *c17F {
	if p, ok := n.(*parse.PipeNode); ok {
		return c17PipeFormula(p, ctx)
	}
	if b, ok := n.(*parse.BoolNode); ok {
		if b.True {
			return c17True
		}
		return c17Not(c17True)
	}
	if v, ok := n.(*parse.VariableNode); ok && len(v.Ident) == 1 {
		if f := ctx.vars[v.Ident[0]]; f != nil {
			return f
		}
	}
	return c17MkAtom(c17Render(n, ctx))
}

// c17PipeFormula turns the pipeline of an {{if}} / {{with}} into a formula.
func c17PipeFormula(p *parse.PipeNode, ctx c17Ctx) *c17F {
	if p == nil {
		return c17Atom("[local] <nil pipeline>")
	}
	if len(p.Decl) == 0 && len(p.Cmds) == 1 {
		args := p.Cmds[0].Args
		if id, ok := args[0].(*parse.IdentifierNode); ok && len(args) > 1 {
			switch id.Ident {
			case "and", "or":
				var fs []*c17F
				for _, a := range args[1:] {
					fs = append(fs, c17ArgFormula(a, ctx))
				}
				if id.Ident == "and" {
					return c17Bin('&', fs)
				}
				return c17Bin('|', fs)
			case "not":
				if len(args) == 2 {
					return c17Not(c17ArgFormula(args[1], ctx))
				}
			}
		}
		if len(args) == 1 {
			return c17ArgFormula(args[0], ctx)
		}
	}
	return c17MkAtom(c17Render(p, ctx))
}

func (w *c17Walker) emit(text string, guards []*c17F, tmpl string) {
	w.segs = append(w.segs, c17Seg{text: text, guard: c17Bin('&', guards), tmpl: tmpl})
}

// isContinueIf recognises `{{if C}}{{continue}}{{end}}` (white space around the continue allowed).
func c17IsContinueIf(n *parse.IfNode) bool {
	if n.ElseList != nil && len(n.ElseList.Nodes) > 0 {
		return false
	}
	found := false
	for _, c := range n.List.Nodes {
		switch c := c.(type) {
		case *parse.ContinueNode:
			found = true
		case *parse.TextNode:
			if strings.TrimSpace(string(c.Text)) != "" {
				return false
			}
		default:
			return false
		}
	}
	return found
}

// c17Reassigned collects the targets of `{{$x = …}}`.
func c17Reassigned(n parse.Node, into map[string]bool) {
	switch n := n.(type) {
	case *parse.ListNode:
		if n != nil {
			for _, c := range n.Nodes {
				c17Reassigned(c, into)
			}
		}
	case *parse.ActionNode:
		if n.Pipe != nil && n.Pipe.IsAssign {
			for _, d := range n.Pipe.Decl {
				into[d.Ident[0]] = true
			}
		}
	case *parse.IfNode:
		c17Reassigned(n.List, into)
		c17Reassigned(n.ElseList, into)
	case *parse.WithNode:
		c17Reassigned(n.List, into)
		c17Reassigned(n.ElseList, into)
	case *parse.RangeNode:
		c17Reassigned(n.List, into)
		c17Reassigned(n.ElseList, into)
	}
}

// c17ElemOnly: the node depends only on the grammar and on the element variable of the enclosing range.
func c17ElemOnly(n parse.Node, ctx c17Ctx) bool {
	switch n := n.(type) {
	case *parse.VariableNode:
		return n.Ident[0] == ctx.rangeElem || (n.Ident[0] == "$" && ctx.dollarRoot)
	case *parse.FieldNode, *parse.DotNode:
		return false
	case *parse.ChainNode:
		return c17ElemOnly(n.Node, ctx)
	case *parse.PipeNode:
		if len(n.Decl) > 0 {
			return false
		}
		for _, c := range n.Cmds {
			if !c17ElemOnly(c, ctx) {
				return false
			}
		}
		return true
	case *parse.CommandNode:
		for _, a := range n.Args {
			if !c17ElemOnly(a, ctx) {
				return false
			}
		}
		return true
	case *parse.IdentifierNode, *parse.StringNode, *parse.NumberNode, *parse.BoolNode, *parse.NilNode:
		return true
	}
	return false
}

func c17HasLoopExit(n parse.Node) bool {
	switch n := n.(type) {
	case *parse.ContinueNode, *parse.BreakNode:
		return true
	case *parse.ListNode:
		if n == nil {
			return false
		}
		for _, c := range n.Nodes {
			if c17HasLoopExit(c) {
				return true
			}
		}
	case *parse.IfNode:
		return c17HasLoopExit(n.List) || (n.ElseList != nil && c17HasLoopExit(n.ElseList))
	case *parse.WithNode:
		return c17HasLoopExit(n.List) || (n.ElseList != nil && c17HasLoopExit(n.ElseList))
	}
	return false
}

func (w *c17Walker) walkList(l *parse.ListNode, guards []*c17F, ctx c17Ctx, tmpl string, inRangeBody bool) {
	if l == nil {
		return
	}
	guards = guards[:len(guards):len(guards)]
	vars := map[string]*c17F{} // declarations of this list are visible to the following siblings only
	for k, v := range ctx.vars {
		vars[k] = v
	}
	ctx.vars = vars
	for _, n := range l.Nodes {
		switch n := n.(type) {
		case *parse.TextNode:
			w.emit(string(n.Text), guards, tmpl)
		case *parse.ActionNode:
			if len(n.Pipe.Decl) > 0 {
				// {{$x := …}} / {{$x = …}} print nothing
				if len(n.Pipe.Decl) == 1 && !n.Pipe.IsAssign && !w.reassigned[n.Pipe.Decl[0].Ident[0]] {
					cp := *n.Pipe
					cp.Decl = nil
					vars[n.Pipe.Decl[0].Ident[0]] = c17PipeFormula(&cp, ctx)
				} else {
					for _, d := range n.Pipe.Decl {
						delete(vars, d.Ident[0])
					}
				}
				continue
			}
			if len(n.Pipe.Cmds) == 1 {
				args := n.Pipe.Cmds[0].Args
				if id, ok := args[0].(*parse.IdentifierNode); ok && id.Ident == "pkg" && len(args) == 2 {
					if s, ok := args[1].(*parse.StringNode); ok {
						w.emit("\x01"+s.Text+"\x02", guards, tmpl)
						continue
					}
				}
			}
			w.emit("\x00", guards, tmpl)
		case *parse.IfNode:
			if inRangeBody && c17IsContinueIf(n) {
				c, _ := c17Render(n.Pipe, ctx)
				c = strings.Join(strings.Fields(c), " ")
				if ctx.rangeOver != "" && ctx.rangeElem != "" && c17ElemOnly(n.Pipe, ctx) {
					c = strings.ReplaceAll(c, ctx.rangeElem+".", "elem.")
					guards = append(guards, c17Atom("some "+ctx.rangeOver+" (not "+c+")"))
				} else {
					guards = append(guards, c17Atom("[local] after continue-if "+c))
				}
				continue
			}
			c := c17PipeFormula(n.Pipe, ctx)
			w.walkList(n.List, append(guards, c), ctx, tmpl, false)
			if n.ElseList != nil {
				w.walkList(n.ElseList, append(guards, c17Not(c)), ctx, tmpl, false)
			}
			if inRangeBody && c17HasLoopExit(n) {
				guards = append(guards, c17Atom("[local] after a conditional continue/break"))
			}
		case *parse.WithNode:
			c := c17PipeFormula(n.Pipe, ctx)
			inner := ctx
			inner.dotRoot = false
			w.walkList(n.List, append(guards, c), inner, tmpl, false)
			if n.ElseList != nil {
				w.walkList(n.ElseList, append(guards, c17Not(c)), ctx, tmpl, false)
			}
		case *parse.RangeNode:
			var ps string
			var global bool
			if len(n.Pipe.Decl) > 0 {
				// range $i, $x := PIPE: the declaration does not make the pipeline local
				cp := *n.Pipe
				cp.Decl = nil
				ps, global = c17Render(&cp, ctx)
			} else {
				ps, global = c17Render(n.Pipe, ctx)
			}
			ps = strings.Join(strings.Fields(ps), " ")
			c := c17MkAtom("nonempty "+ps, global)
			inner := ctx
			inner.dotRoot = false
			if len(n.Pipe.Decl) > 0 {
				iv := map[string]*c17F{}
				for k, v := range ctx.vars {
					iv[k] = v
				}
				for _, d := range n.Pipe.Decl {
					delete(iv, d.Ident[0])
				}
				inner.vars = iv
			}
			inner.rangeOver, inner.rangeElem = "", ""
			if global {
				inner.rangeOver = ps
				if k := len(n.Pipe.Decl); k > 0 {
					inner.rangeElem = n.Pipe.Decl[k-1].Ident[0]
				}
			}
			w.walkList(n.List, append(guards, c), inner, tmpl, true)
			if n.ElseList != nil {
				w.walkList(n.ElseList, append(guards, c17Not(c)), ctx, tmpl, false)
			}
		case *parse.TemplateNode:
			t := w.trees[n.Name]
			if t == nil || t.Root == nil {
				w.emit("\x00", guards, tmpl) // unknown template: opaque output
				continue
			}
			if w.depth > 40 {
				*w.problems = append(*w.problems, w.file+": template recursion through "+n.Name)
				w.emit("\x00", guards, tmpl)
				continue
			}
			inner := c17Ctx{} // a template starts without variables
			if n.Pipe != nil && len(n.Pipe.Decl) == 0 && len(n.Pipe.Cmds) == 1 && len(n.Pipe.Cmds[0].Args) == 1 {
				_, g := c17Render(n.Pipe.Cmds[0].Args[0], ctx)
				switch n.Pipe.Cmds[0].Args[0].(type) {
				case *parse.DotNode, *parse.VariableNode:
					inner.dotRoot, inner.dollarRoot = g, g
				}
			}
			callee := n.Name
			if w.shared[n.Name] {
				callee = tmpl
			}
			w.depth++
			w.walkList(t.Root, guards, inner, callee, false)
			w.depth--
		case *parse.BreakNode, *parse.ContinueNode, *parse.CommentNode:
			// a bare break/continue ends the body: what follows in this list is unreachable
			if _, isComment := n.(*parse.CommentNode); !isComment {
				return
			}
		default:
			w.emit("\x00", guards, tmpl)
		}
	}
}

// c17Patch mirrors gen.patchTemplates (` -}}` followed by a newline consumes that newline only).
func c17Patch(tmpl string) string {
	const seq = " -}}\n"
	strs := strings.SplitAfter(tmpl, seq)
	if len(strs) == 1 {
		return tmpl
	}
	var ret strings.Builder
	ret.WriteString(strs[0])
	for _, s := range strs[1:] {
		if r, _ := utf8.DecodeRuneInString(s); unicode.IsSpace(r) {
			ret.WriteString("{{/**/}}")
		}
		ret.WriteString(s)
	}
	return ret.String()
}

func c17Parse(text string) (map[string]*parse.Tree, error) {
	t := parse.New("main")
	t.Mode = parse.SkipFuncCheck
	set := map[string]*parse.Tree{}
	_, err := t.Parse(c17Patch(text), "{{", "}}", set)
	return set, err
}

// ---- gen/templates.go: languages["go"] and language.templates

type c17File struct {
	group string
	idx   int
	name  string
	tmpl  string
	cond  []*c17F // disjuncts
}

func c17GoExpr(fset *token.FileSet, e ast.Expr, recv string) *c17F {
	switch e := e.(type) {
	case *ast.ParenExpr:
		return c17GoExpr(fset, e.X, recv)
	case *ast.UnaryExpr:
		if e.Op == token.NOT {
			return c17Not(c17GoExpr(fset, e.X, recv))
		}
	case *ast.BinaryExpr:
		switch e.Op {
		case token.LAND:
			return c17Bin('&', []*c17F{c17GoExpr(fset, e.X, recv), c17GoExpr(fset, e.Y, recv)})
		case token.LOR:
			return c17Bin('|', []*c17F{c17GoExpr(fset, e.X, recv), c17GoExpr(fset, e.Y, recv)})
		case token.NEQ, token.EQL:
			if id, ok := e.Y.(*ast.Ident); ok && id.Name == "nil" {
				f := c17GoExpr(fset, e.X, recv)
				if e.Op == token.EQL {
					return c17Not(f)
				}
				return f
			}
		}
	case *ast.SelectorExpr:
		s := exprString(fset, e)
		if rest, ok := strings.CutPrefix(s, recv+"."); ok {
			return c17Atom("." + rest)
		}
	}
	return c17Atom("go: " + exprString(fset, e))
}

// c17Selection walks the body of language.templates. It understands `ret = append(ret, l.F...)`,
// `ret = append(ret, l.F[k])` and if/else; anything else that appends is reported as a problem.
func c17Selection(fset *token.FileSet, body *ast.BlockStmt, langRecv, gramParam string, problems *[]string) map[string][]*c17F {
	sel := map[string][]*c17F{} // "Group" (all files) or "Group[k]"
	var walk func(stmts []ast.Stmt, guards []*c17F)
	walk = func(stmts []ast.Stmt, guards []*c17F) {
		guards = guards[:len(guards):len(guards)]
		for _, s := range stmts {
			switch s := s.(type) {
			case *ast.IfStmt:
				if s.Init != nil {
					*problems = append(*problems, "language.templates: if with init statement")
				}
				c := c17GoExpr(fset, s.Cond, gramParam)
				walk(s.Body.List, append(guards, c))
				switch e := s.Else.(type) {
				case *ast.BlockStmt:
					walk(e.List, append(guards, c17Not(c)))
				case *ast.IfStmt:
					walk([]ast.Stmt{e}, append(guards, c17Not(c)))
				}
			case *ast.AssignStmt:
				if len(s.Rhs) != 1 {
					continue
				}
				call, ok := s.Rhs[0].(*ast.CallExpr)
				if !ok {
					continue
				}
				if fn, ok := call.Fun.(*ast.Ident); !ok || fn.Name != "append" || len(call.Args) != 2 {
					continue
				}
				arg := exprString(fset, call.Args[1])
				if rest, ok := strings.CutPrefix(arg, langRecv+"."); ok {
					key := rest
					if !call.Ellipsis.IsValid() && !strings.Contains(rest, "[") {
						*problems = append(*problems, "language.templates: unexpected append of "+arg)
					}
					sel[key] = append(sel[key], c17Bin('&', guards))
				} else if _, isLit := call.Args[1].(*ast.CompositeLit); !isLit {
					*problems = append(*problems, "language.templates: unexpected append of "+arg)
				}
				// file{…} literals are the non-Go outputs (bison .y, token_codes.inc): not Go files
			case *ast.DeclStmt, *ast.ReturnStmt:
			default:
				*problems = append(*problems, fmt.Sprintf("language.templates: unexpected statement %T", s))
			}
		}
	}
	walk(body.List, nil)
	return sel
}

func c17BuiltinArg(e ast.Expr) string {
	call, ok := e.(*ast.CallExpr)
	if !ok || len(call.Args) != 1 {
		return ""
	}
	if fn, ok := call.Fun.(*ast.Ident); !ok || fn.Name != "builtin" {
		return ""
	}
	if lit, ok := call.Args[0].(*ast.BasicLit); ok && lit.Kind == token.STRING {
		if s, err := strconv.Unquote(lit.Value); err == nil {
			return s
		}
	}
	return ""
}

// c17Language reads the entry for "go" of the `languages` literal.
func c17Language(f *ast.File) (shared string, groups map[string][]c17File, order []string) {
	groups = map[string][]c17File{}
	for _, d := range f.Decls {
		gd, ok := d.(*ast.GenDecl)
		if !ok {
			continue
		}
		for _, sp := range gd.Specs {
			vs, ok := sp.(*ast.ValueSpec)
			if !ok || len(vs.Names) != 1 || vs.Names[0].Name != "languages" || len(vs.Values) != 1 {
				continue
			}
			m, ok := vs.Values[0].(*ast.CompositeLit)
			if !ok {
				continue
			}
			for _, el := range m.Elts {
				kv, ok := el.(*ast.KeyValueExpr)
				if !ok {
					continue
				}
				if k, ok := kv.Key.(*ast.BasicLit); !ok || k.Value != `"go"` {
					continue
				}
				v := kv.Value
				if u, ok := v.(*ast.UnaryExpr); ok {
					v = u.X
				}
				lang, ok := v.(*ast.CompositeLit)
				if !ok {
					continue
				}
				for _, fe := range lang.Elts {
					fkv, ok := fe.(*ast.KeyValueExpr)
					if !ok {
						continue
					}
					field, ok := fkv.Key.(*ast.Ident)
					if !ok {
						continue
					}
					if field.Name == "SharedDefs" {
						shared = c17BuiltinArg(fkv.Value)
						continue
					}
					list, ok := fkv.Value.(*ast.CompositeLit)
					if !ok {
						continue
					}
					order = append(order, field.Name)
					for i, fl := range list.Elts {
						fc, ok := fl.(*ast.CompositeLit)
						if !ok || len(fc.Elts) != 2 {
							continue
						}
						nameLit, ok := fc.Elts[0].(*ast.BasicLit)
						if !ok {
							continue
						}
						name, _ := strconv.Unquote(nameLit.Value)
						groups[field.Name] = append(groups[field.Name], c17File{group: field.Name, idx: i, name: name, tmpl: c17BuiltinArg(fc.Elts[1])})
					}
				}
			}
		}
	}
	return
}

// ---- scanning the symbolic output for declarations and uses

type c17Site struct {
	pkg, name string
	file      int
	tmpl      string
	kind      string
	guard     *c17F
}

func c17IsIdentByte(c byte) bool {
	return c == '_' || (c >= 'a' && c <= 'z') || (c >= 'A' && c <= 'Z') || (c >= '0' && c <= '9')
}

type c17Buf struct {
	b   []byte
	seg []int32 // segment index of every byte
}

// c17Build concatenates the segments; \x03 separates segments with different guards.
func c17Build(segs []c17Seg) *c17Buf {
	buf := &c17Buf{}
	prev := ""
	for i, s := range segs {
		if s.text == "" {
			continue
		}
		k := s.guard.key()
		if len(buf.b) > 0 && k != prev {
			buf.b = append(buf.b, 3)
			buf.seg = append(buf.seg, int32(i))
		}
		prev = k
		for j := 0; j < len(s.text); j++ {
			buf.b = append(buf.b, s.text[j])
			buf.seg = append(buf.seg, int32(i))
		}
	}
	// blank comments, string, raw string and rune literals
	b := buf.b
	for i := 0; i < len(b); i++ {
		switch {
		case b[i] == '/' && i+1 < len(b) && b[i+1] == '/':
			for i < len(b) && b[i] != '\n' {
				if b[i] != 3 {
					b[i] = ' '
				}
				i++
			}
		case b[i] == '"':
			j := i + 1
			for j < len(b) && b[j] != '"' && b[j] != '\n' {
				if b[j] == '\\' {
					j++
				}
				j++
			}
			if j < len(b) && b[j] == '"' {
				for k := i; k <= j; k++ {
					if b[k] != 3 {
						b[k] = ' '
					}
				}
				i = j
			}
		case b[i] == '`':
			j := i + 1
			for j < len(b) && b[j] != '`' {
				j++
			}
			if j < len(b) {
				for k := i; k <= j; k++ {
					if b[k] != '\n' && b[k] != 3 {
						b[k] = ' '
					}
				}
				i = j
			}
		case b[i] == '\'':
			j := i + 1
			if j < len(b) && b[j] == '\\' {
				j++
			}
			for j < len(b) && b[j] != '\'' && b[j] != '\n' && j < i+12 {
				j++
			}
			if j < len(b) && b[j] == '\'' {
				for k := i; k <= j; k++ {
					b[k] = ' '
				}
				i = j
			}
		}
	}
	return buf
}

// prevReal / nextReal skip the \x03 separators.
func (u *c17Buf) prevReal(i int) (byte, int) {
	for i--; i >= 0; i-- {
		if u.b[i] != 3 {
			return u.b[i], i
		}
	}
	return '\n', -1
}

func (u *c17Buf) nextReal(i int) (byte, int) {
	for ; i < len(u.b); i++ {
		if u.b[i] != 3 {
			return u.b[i], i
		}
	}
	return '\n', len(u.b)
}

type c17Tok struct {
	start, end int
	name       string // with `*` for adjacent action output
	pkg        string // "" = current package, else the {{pkg}} qualifier
	afterDot   bool
	quals      []string // a.b.c: for c the chain [a b] (nil when the chain does not start at a plain identifier)
	alts       []c17Alt // {{if}}a{{else}}b{{end}}.c: the alternative qualifiers, each a whole guarded segment
	lineStart  bool
}

// c17Alt is one alternative qualifier of a selector: its text and the position of its first byte (the guards of
// that byte's segment are those of the alternative).
type c17Alt struct {
	name string
	pos  int
}

// altQualifiers: the identifiers of consecutive segments, each consisting of one identifier, that end right before
// position dot (`{{if x}}stream{{else}}lexer{{end}}.`). Empty unless there are at least two.
func (u *c17Buf) altQualifiers(dot int) []c17Alt {
	b := u.b
	var alts []c17Alt
	end := dot // exclusive; b[end-1] must be the separator \x03
	for end > 0 && b[end-1] == 3 {
		k := end - 2
		for k >= 0 && c17IsIdentByte(b[k]) {
			k--
		}
		if k == end-2 || k < 0 || b[k] != 3 {
			break
		}
		alts = append(alts, c17Alt{name: string(b[k+1 : end-1]), pos: k + 1})
		end = k + 1
	}
	if len(alts) < 2 {
		return nil
	}
	return alts
}

func (u *c17Buf) tokens() []c17Tok {
	var toks []c17Tok
	b := u.b
	for i := 0; i < len(b); {
		c := b[i]
		if !c17IsIdentByte(c) || (c >= '0' && c <= '9') {
			if c >= '0' && c <= '9' { // number: skip its alphanumeric tail (0x1ff, 1e3)
				for i < len(b) && c17IsIdentByte(b[i]) {
					i++
				}
				continue
			}
			i++
			continue
		}
		j := i
		for j < len(b) && c17IsIdentByte(b[j]) {
			j++
		}
		t := c17Tok{start: i, end: j, name: string(b[i:j])}
		pc, pi := u.prevReal(i)
		nc, _ := u.nextReal(j)
		sepBefore := i > 0 && b[i-1] == 3
		sepAfter := j < len(b) && b[j] == 3
		if pc == 0 || (sepBefore && c17IsIdentByte(pc)) {
			t.name = "*" + t.name
		}
		if nc == 0 || (sepAfter && c17IsIdentByte(nc)) {
			t.name += "*"
		}
		switch {
		case pc == 2: // {{pkg "x"}}Name
			k := pi
			for k >= 0 && b[k] != 1 {
				k--
			}
			if k >= 0 {
				t.pkg = string(b[k+1 : pi])
				if t.pkg == "" {
					t.pkg = "main"
				}
			}
		case pc == '.':
			t.afterDot = true
			// walk back over ident(.ident)*
			var chain []string
			dot := pi
			ok := true
			for {
				qc, qi := u.prevReal(dot)
				if !c17IsIdentByte(qc) {
					ok = false
					break
				}
				k := qi
				for k >= 0 && c17IsIdentByte(b[k]) {
					k--
				}
				if k >= 0 && b[k] == 3 { // a name glued from several pieces
					if bc, _ := u.prevReal(k + 1); c17IsIdentByte(bc) || bc == 0 {
						if len(chain) == 0 && dot == pi {
							t.alts = u.altQualifiers(dot)
						}
						ok = false
						break
					}
				}
				chain = append([]string{string(b[k+1 : qi+1])}, chain...)
				bc, bi := u.prevReal(k + 1)
				if bc == '.' {
					dot = bi
					continue
				}
				if bc == 0 || bc == 2 {
					ok = false
				}
				break
			}
			if ok {
				t.quals = chain
			}
		}
		// start of line?
		k := i - 1
		for k >= 0 && b[k] == 3 {
			k--
		}
		t.lineStart = k < 0 || b[k] == '\n'
		toks = append(toks, t)
		i = j
	}
	return toks
}

var c17Keywords = map[string]bool{"func": true, "type": true, "var": true, "const": true, "struct": true, "interface": true,
	"map": true, "chan": true, "return": true, "if": true, "else": true, "for": true, "range": true, "switch": true, "case": true,
	"default": true, "break": true, "continue": true, "goto": true, "package": true, "import": true, "go": true, "defer": true,
	"select": true, "fallthrough": true}

// c17Scan finds the declarations (pass 1) and, given the declared names of the package, the uses (pass 2).
type c17Scanner struct {
	u         *c17Buf
	toks      []c17Tok
	segs      []c17Seg
	pkg       string
	file      int
	isDef     map[int]bool      // token index → part of a declaration header
	fieldType map[string]string // Type.field → template-declared type name of the field (`T` or `*T`)
	funcAt    map[int]string    // token index of a line-start `func` → declared name (labels are scoped by it)
}

func (s *c17Scanner) site(t c17Tok, pkg, name, kind string) c17Site {
	sg := s.segs[s.u.seg[t.start]]
	return c17Site{pkg: pkg, name: name, file: s.file, tmpl: sg.tmpl, kind: kind, guard: sg.guard}
}

// lineEnd returns the index of the first token that starts after the end of the line containing token i.
func (s *c17Scanner) sameLine(i, j int) bool {
	for k := s.toks[i].end; k < s.toks[j].start; k++ {
		if s.u.b[k] == '\n' {
			return false
		}
	}
	return true
}

func (s *c17Scanner) between(i, j int) string {
	return strings.Map(func(r rune) rune {
		if r == 3 {
			return -1
		}
		return r
	}, string(s.u.b[s.toks[i].end:s.toks[j].start]))
}

func (s *c17Scanner) tail(i int) string { // text from the end of token i to the end of its line
	k := s.toks[i].end
	e := k
	for e < len(s.u.b) && s.u.b[e] != '\n' {
		e++
	}
	return strings.ReplaceAll(string(s.u.b[k:e]), "\x03", "")
}

// firstOnLine: only blanks between the start of the line and token j.
func (s *c17Scanner) firstOnLine(j int) bool {
	for k := s.toks[j].start - 1; k >= 0 && s.u.b[k] != '\n'; k-- {
		if c := s.u.b[k]; c != ' ' && c != '\t' && c != 3 {
			return false
		}
	}
	return true
}

// isLabel: token j is `name:` alone on its line.
func (s *c17Scanner) isLabel(j int) bool {
	t := s.toks[j]
	if c17Keywords[t.name] || strings.Contains(t.name, "*") || t.afterDot || t.pkg != "" || !s.firstOnLine(j) {
		return false
	}
	rest := strings.TrimRight(s.tail(j), " \t\r")
	return rest == ":"
}

func (s *c17Scanner) defs() []c17Site {
	var out []c17Site
	s.isDef = map[int]bool{}
	s.fieldType = map[string]string{}
	s.funcAt = map[int]string{}
	toks := s.toks
	cur := "" // enclosing function
	for i := 0; i < len(toks); i++ {
		t := toks[i]
		if cur != "" && s.isLabel(i) {
			// a label: `goto` needs it, and Go rejects a label that no goto / break / continue names
			s.isDef[i] = true
			out = append(out, s.site(t, s.pkg, cur+"#"+t.name, "label"))
			continue
		}
		if !t.lineStart || i+1 >= len(toks) {
			continue
		}
		switch t.name {
		case "func":
			// func Name( | func (r *Recv) Name( | func (Recv) Name(
			rest := strings.TrimLeft(s.tail(i), " ")
			if strings.HasPrefix(rest, "(") {
				// receiver: tokens up to the closing parenthesis
				j := i + 1
				var recv []int
				for j < len(toks) && s.sameLine(i, j) && !strings.Contains(s.between(i, j), ")") {
					recv = append(recv, j)
					j++
				}
				if len(recv) == 0 || j >= len(toks) || !s.sameLine(i, j) {
					continue
				}
				rt := toks[recv[len(recv)-1]]
				if strings.Contains(rt.name, "*") || strings.ContainsAny(s.between(i, j), "\x00\x01") {
					continue // receiver type printed by an action
				}
				for _, r := range recv {
					s.isDef[r] = true
				}
				s.isDef[j] = true
				out = append(out, s.site(toks[j], s.pkg, rt.name+"."+toks[j].name, "method"))
				cur = rt.name + "." + toks[j].name
				s.funcAt[i] = cur
			} else if s.sameLine(i, i+1) {
				s.isDef[i+1] = true
				out = append(out, s.site(toks[i+1], s.pkg, toks[i+1].name, "func"))
				cur = toks[i+1].name
				s.funcAt[i] = cur
			}
		case "type":
			if !s.sameLine(i, i+1) || strings.TrimSpace(s.between(i, i+1)) != "" {
				continue
			}
			s.isDef[i+1] = true
			out = append(out, s.site(toks[i+1], s.pkg, toks[i+1].name, "type"))
			if strings.HasSuffix(strings.TrimSpace(s.tail(i+1)), "struct {") && !strings.Contains(toks[i+1].name, "*") {
				// fields until a line that starts with `}`
				j := i + 3
				for j < len(toks) {
					if toks[j].lineStart {
						break // a token in column 0 ends the struct (the closing brace is not a token)
					}
					// first token of its line?
					first := true
					for k := toks[j].start - 1; k >= 0 && s.u.b[k] != '\n'; k-- {
						if c := s.u.b[k]; c != ' ' && c != '\t' && c != 3 {
							first = false
							break
						}
					}
					if first && !toks[j].afterDot && j+1 < len(toks) && s.sameLine(j, j+1) && !c17Keywords[toks[j].name] {
						s.isDef[j] = true
						out = append(out, s.site(toks[j], s.pkg, toks[i+1].name+"."+toks[j].name, "field"))
						if gap := strings.NewReplacer(" ", "", "\t", "", "*", "").Replace(s.between(j, j+1)); gap == "" && toks[j+1].pkg == "" {
							s.fieldType[toks[i+1].name+"."+toks[j].name] = toks[j+1].name
						}
					}
					j++
				}
			}
		case "var", "const":
			rest := strings.TrimLeft(s.tail(i), " ")
			if strings.HasPrefix(rest, "(") {
				// block: members are the first tokens of the following lines until a line starting with `)`
				pos := t.end
				for {
					// next line
					for pos < len(s.u.b) && s.u.b[pos] != '\n' {
						pos++
					}
					pos++
					if pos >= len(s.u.b) {
						break
					}
					q := pos
					for q < len(s.u.b) && (s.u.b[q] == 3 || s.u.b[q] == '\t' || s.u.b[q] == ' ') {
						q++
					}
					if q >= len(s.u.b) || s.u.b[q] == ')' {
						break
					}
					if !c17IsIdentByte(s.u.b[q]) {
						continue
					}
					for j := i + 1; j < len(toks); j++ {
						if toks[j].start == q {
							s.isDef[j] = true
							out = append(out, s.site(toks[j], s.pkg, toks[j].name, t.name))
							break
						}
						if toks[j].start > q {
							break
						}
					}
				}
			} else if s.sameLine(i, i+1) && strings.TrimSpace(s.between(i, i+1)) == "" {
				s.isDef[i+1] = true
				out = append(out, s.site(toks[i+1], s.pkg, toks[i+1].name, t.name))
			}
		}
	}
	return out
}

// uses: declared maps pkg → name → kinds.
func (s *c17Scanner) uses(declared map[string]map[string]bool, types map[string]map[string]bool, fieldTypes map[string]map[string]string) []c17Site {
	var out []c17Site
	toks := s.toks
	scope := map[string]string{} // variable → template-declared type of the current function
	cur := ""
	for i := 0; i < len(toks); i++ {
		t := toks[i]
		if (t.name == "goto" || t.name == "break" || t.name == "continue") && !t.afterDot && cur != "" && i+1 < len(toks) && s.sameLine(i, i+1) &&
			strings.TrimSpace(s.between(i, i+1)) == "" {
			if n := cur + "#" + toks[i+1].name; declared[s.pkg][n] {
				out = append(out, s.site(toks[i+1], s.pkg, n, "use"))
			}
		}
		if t.lineStart {
			if t.name == "func" {
				if f, ok := s.funcAt[i]; ok {
					cur = f
				}
				scope = map[string]string{}
				// signature: `ident Type` / `ident *Type` pairs up to the end of the line
				for j := i + 1; j+1 < len(toks) && s.sameLine(i, j+1); j++ {
					a, b := toks[j], toks[j+1]
					gap := strings.NewReplacer(" ", "", "*", "", "&", "").Replace(s.between(j, j+1))
					if gap != "" && !(b.pkg != "" && strings.HasPrefix(gap, "\x01") && strings.HasSuffix(gap, "\x02")) {
						continue
					}
					tp := b.pkg
					if tp == "" {
						tp = s.pkg
					}
					// `{{if x}}stream *TokenStream{{else}}lexer *Lexer{{end}}`: the alternatives touch each other in the
					// linearised text, which marks their names as glued (`*`); in a signature they are separate
					an, bn := strings.Trim(a.name, "*"), strings.Trim(b.name, "*")
					if tp == s.pkg && types[tp][bn] && !a.afterDot && !c17Keywords[an] && !types[tp][an] {
						scope[an] = bn
					}
				}
			} else if t.name != "" && !c17Keywords[t.name] {
				// any other token in column 0 (a label such as `restart:`) leaves the scope alone
			}
		}
		if s.isDef[i] || c17Keywords[t.name] {
			continue
		}
		switch {
		case t.pkg != "":
			pkg := t.pkg
			if declared[pkg][t.name] {
				out = append(out, s.site(t, pkg, t.name, "use"))
			}
		case t.afterDot && len(t.alts) > 0:
			// one use per alternative qualifier, under the guards of the alternative
			for _, a := range t.alts {
				tp, ok := scope[a.name]
				if !ok {
					continue
				}
				n := tp + "." + t.name
				kind := "use"
				if !declared[s.pkg][n] {
					if nc, _ := s.u.nextReal(t.end); nc != '(' || strings.Contains(t.name, "*") {
						continue
					}
					kind = "use-undeclared"
				}
				site := s.site(t, s.pkg, n, kind)
				site.guard = c17Bin('&', []*c17F{site.guard, s.segs[s.u.seg[a.pos]].guard})
				out = append(out, site)
			}
		case t.afterDot:
			if len(t.quals) == 0 {
				break
			}
			tp, ok := scope[t.quals[0]]
			for _, q := range t.quals[1:] {
				if !ok {
					break
				}
				tp, ok = fieldTypes[s.pkg][tp+"."+q]
				ok = ok && types[s.pkg][tp]
			}
			if ok {
				if n := tp + "." + t.name; declared[s.pkg][n] {
					out = append(out, s.site(t, s.pkg, n, "use"))
				} else if nc, _ := s.u.nextReal(t.end); nc == '(' && !strings.Contains(t.name, "*") {
					// a method call on a template-declared type that no template declares: a use without any
					// declaration site (its group has no definitions, so the use must be impossible)
					out = append(out, s.site(t, s.pkg, n, "use-undeclared"))
				}
			}
		default:
			if declared[s.pkg][t.name] && !strings.Contains(t.name, ".") {
				out = append(out, s.site(t, s.pkg, t.name, "use"))
			}
		}
	}
	return out
}

func (f *c17F) eval(v map[string]bool) bool {
	switch f.op {
	case 't':
		return true
	case 'a':
		return v[f.atom]
	case 'n':
		return !f.sub[0].eval(v)
	case '&':
		return f.sub[0].eval(v) && f.sub[1].eval(v)
	}
	return f.sub[0].eval(v) || f.sub[1].eval(v)
}

// c17Counter looks for a valuation with use ∧ ¬def, `.Options.IsEnabled` atoms being true (-v only).
func c17Counter(use, def *c17F) string {
	set := map[string]bool{}
	use.atoms(set)
	def.atoms(set)
	var atoms []string
	for a := range set {
		if !strings.HasPrefix(a, ".Options.IsEnabled ") {
			atoms = append(atoms, a)
		}
	}
	sort.Strings(atoms)
	if len(atoms) > 20 {
		return "too many atoms"
	}
	for m := 0; m < 1<<len(atoms); m++ {
		v := map[string]bool{}
		for a := range set {
			v[a] = true
		}
		var on []string
		for i, a := range atoms {
			v[a] = m&(1<<i) != 0
			if v[a] {
				on = append(on, a)
			}
		}
		if use.eval(v) && !def.eval(v) {
			return "true: {" + strings.Join(on, "; ") + "}"
		}
	}
	return ""
}

// c17DefOrdered writes a list whose order matters (position = id); Section.Def would sort it.
func c17DefOrdered(w *Section, name, elem string, items []string) {
	fmt.Fprintf(&w.buf, "def %s : List %s := [", name, elem)
	for i, it := range items {
		if i > 0 {
			w.buf.WriteString(",")
		}
		w.buf.WriteString("\n  " + it)
	}
	if len(items) > 0 {
		w.buf.WriteString("\n")
	}
	w.buf.WriteString("]\n\n")
}

func slicesCompact(l []string) []string {
	var out []string
	for i, s := range l {
		if i == 0 || s != l[i-1] {
			out = append(out, s)
		}
	}
	return out
}

func c17PkgOf(file string) string {
	if i := strings.IndexByte(file, '/'); i >= 0 {
		return file[:i]
	}
	return "main"
}

// c17Localise renames `[local] x` atoms to `[local-def] x` (definition guards).
func c17Localise(f *c17F) *c17F {
	switch f.op {
	case 'a':
		if rest, ok := strings.CutPrefix(f.atom, "[local] "); ok {
			return c17Atom("[local-def] " + rest)
		}
		return f
	case 't':
		return f
	}
	g := &c17F{op: f.op}
	for _, s := range f.sub {
		g.sub = append(g.sub, c17Localise(s))
	}
	return g
}

func extractC17(p *Program, w *Section) {
	w.Declare("c17Atoms", "TmplAtom")
	w.Declare("c17Files", "TmplFile")
	w.Declare("c17Names", "TmplName")
	w.Declare("c17Tmpls", "String")
	w.Declare("c17Groups", "TmplGroup")
	w.Declare("c17LabelNames", "Nat")
	w.Declare("c17Hashes", "TmplHash")
	w.Declare("c17DefSigs", "String")
	w.Declare("c17Problems", "String")

	var problems []string
	var hashes []string
	var files []c17File
	shared := ""

	// gen/templates.go
	for _, pkg := range p.Pkgs {
		if pkg.Rel != "gen" {
			continue
		}
		for _, f := range pkg.Files {
			if f.Rel != "gen/templates.go" {
				continue
			}
			var groups map[string][]c17File
			var order []string
			shared, groups, order = c17Language(f.AST)
			var sel map[string][]*c17F
			for _, d := range f.AST.Decls {
				switch d := d.(type) {
				case *ast.FuncDecl:
					name := declName(d)
					if name == "language.templates" || name == "patchTemplates" || name == "builtin" {
						c := *d
						c.Doc = nil
						hashes = append(hashes, leanRec("gen/templates.go:"+name, stmtHash(p.Fset, &c)))
					}
					if name == "language.templates" && d.Body != nil && d.Recv != nil && len(d.Recv.List) == 1 &&
						len(d.Recv.List[0].Names) == 1 && d.Type.Params != nil && len(d.Type.Params.List) == 1 && len(d.Type.Params.List[0].Names) == 1 {
						sel = c17Selection(p.Fset, d.Body, d.Recv.List[0].Names[0].Name, d.Type.Params.List[0].Names[0].Name, &problems)
					}
				case *ast.GenDecl:
					for _, sp := range d.Specs {
						switch sp := sp.(type) {
						case *ast.ValueSpec:
							if len(sp.Names) == 1 && sp.Names[0].Name == "languages" && len(sp.Values) == 1 {
								// only the "go" entry
								if m, ok := sp.Values[0].(*ast.CompositeLit); ok {
									for _, el := range m.Elts {
										if kv, ok := el.(*ast.KeyValueExpr); ok {
											if k, ok := kv.Key.(*ast.BasicLit); ok && k.Value == `"go"` {
												hashes = append(hashes, leanRec(`gen/templates.go:languages["go"]`, stmtHash(p.Fset, kv.Value)))
											}
										}
									}
								}
							}
						case *ast.TypeSpec:
							if sp.Name.Name == "language" || sp.Name.Name == "file" {
								hashes = append(hashes, leanRec("gen/templates.go:type "+sp.Name.Name, stmtHash(p.Fset, sp)))
							}
						}
					}
				}
			}
			if sel == nil {
				problems = append(problems, "gen/templates.go: language.templates not found or not understood")
			}
			for _, g := range order {
				for _, fl := range groups[g] {
					fl.cond = append(fl.cond, sel[g]...)
					fl.cond = append(fl.cond, sel[fmt.Sprintf("%s[%d]", g, fl.idx)]...)
					files = append(files, fl)
				}
			}
		}
		// gen/gen.go: Generate decides how templates are combined; extraFuncs supplies `pkg`
		for _, f := range pkg.Files {
			if f.Rel != "gen/gen.go" {
				continue
			}
			for _, d := range f.AST.Decls {
				if fd, ok := d.(*ast.FuncDecl); ok {
					switch name := declName(fd); name {
					case "Generate", "loadTemplate", "fileContext.goPackage":
						c := *fd
						c.Doc = nil
						hashes = append(hashes, leanRec("gen/gen.go:"+name, stmtHash(p.Fset, &c)))
					}
				}
			}
		}
	}
	if len(files) == 0 {
		problems = append(problems, `gen/templates.go: languages["go"] not found`)
	}
	// grammar/gen.go: the template helper methods whose definitions the implication table quotes
	for _, pkg := range p.Pkgs {
		if pkg.Rel != "grammar" {
			continue
		}
		for _, f := range pkg.Files {
			if f.Rel != "grammar/gen.go" {
				continue
			}
			for _, d := range f.AST.Decls {
				if fd, ok := d.(*ast.FuncDecl); ok {
					switch name := declName(fd); name {
					case "Grammar.NeedsSession", "Grammar.ReportTokens", "Grammar.ReportsInvalidToken", "Grammar.FixesTrailingWS",
						"Parser.HasActionsWithReport", "Parser.HasActions", "Options.IsEnabled":
						c := *fd
						c.Doc = nil
						hashes = append(hashes, leanRec("grammar/gen.go:"+name, stmtHash(p.Fset, &c)))
					}
				}
			}
		}
	}

	read := func(name string) (string, bool) {
		b, err := os.ReadFile(filepath.Join(p.Repo, "gen", "templates", name+".go.tmpl"))
		if err != nil {
			problems = append(problems, "cannot read gen/templates/"+name+".go.tmpl")
			return "", false
		}
		return string(b), true
	}
	var sharedTrees map[string]*parse.Tree
	if shared != "" {
		if text, ok := read(shared); ok {
			var err error
			sharedTrees, err = c17Parse(text)
			if err != nil {
				problems = append(problems, "cannot parse "+shared+": "+err.Error())
			}
		}
	}

	var allDefs, allUses []c17Site
	type scanned struct {
		s    *c17Scanner
		defs []c17Site
	}
	var scans []scanned
	for fi, fl := range files {
		if fl.tmpl == "" {
			problems = append(problems, "no builtin template for "+fl.name)
			continue
		}
		text, ok := read(fl.tmpl)
		if !ok {
			continue
		}
		own, err := c17Parse(text)
		if err != nil {
			problems = append(problems, "cannot parse "+fl.tmpl+": "+err.Error())
			if own == nil {
				continue
			}
		}
		trees := map[string]*parse.Tree{}
		isShared := map[string]bool{}
		for k, v := range sharedTrees {
			if k != "main" {
				trees[k] = v
				isShared[k] = true
			}
		}
		for k, v := range own {
			trees[k] = v
			delete(isShared, k)
		}
		root := trees["main"]
		if root == nil || root.Root == nil {
			problems = append(problems, "no top-level template in "+fl.tmpl)
			continue
		}
		wk := &c17Walker{trees: trees, problems: &problems, file: fl.tmpl, reassigned: map[string]bool{}, shared: isShared}
		for _, t := range trees {
			if t != nil && t.Root != nil {
				c17Reassigned(t.Root, wk.reassigned)
			}
		}
		wk.walkList(root.Root, nil, c17Ctx{dotRoot: true, dollarRoot: true}, "main", false)
		u := c17Build(wk.segs)
		sc := &c17Scanner{u: u, toks: u.tokens(), segs: wk.segs, pkg: c17PkgOf(fl.name), file: fi}
		ds := sc.defs()
		for i := range ds {
			ds[i].guard = c17Localise(ds[i].guard)
		}
		scans = append(scans, scanned{sc, ds})
		allDefs = append(allDefs, ds...)
	}
	declared := map[string]map[string]bool{}
	types := map[string]map[string]bool{}
	for _, d := range allDefs {
		if declared[d.pkg] == nil {
			declared[d.pkg] = map[string]bool{}
			types[d.pkg] = map[string]bool{}
		}
		declared[d.pkg][d.name] = true
		if d.kind == "type" {
			types[d.pkg][d.name] = true
		}
	}
	fieldTypes := map[string]map[string]string{}
	for _, sc := range scans {
		if fieldTypes[sc.s.pkg] == nil {
			fieldTypes[sc.s.pkg] = map[string]string{}
		}
		for k, v := range sc.s.fieldType {
			fieldTypes[sc.s.pkg][k] = v
		}
	}
	for _, sc := range scans {
		allUses = append(allUses, sc.s.uses(declared, types, fieldTypes)...)
	}
	for _, u := range allUses {
		if u.kind == "use-undeclared" {
			declared[u.pkg][u.name] = true
		}
	}

	// numbering
	atomSet := map[string]bool{}
	for _, fl := range files {
		for _, c := range fl.cond {
			c.atoms(atomSet)
		}
	}
	for _, d := range allDefs {
		d.guard.atoms(atomSet)
	}
	for _, u := range allUses {
		u.guard.atoms(atomSet)
	}
	var atoms []string
	for a := range atomSet {
		atoms = append(atoms, a)
	}
	sort.Strings(atoms)
	atomID := map[string]int{}
	var atomItems []string
	for i, a := range atoms {
		atomID[a] = i
		atomItems = append(atomItems, fmt.Sprintf("⟨%d, %s⟩", i, leanStr(a)))
	}
	var names []string
	for pkg, m := range declared {
		for n := range m {
			names = append(names, pkg+"\x00"+n)
		}
	}
	sort.Strings(names)
	nameID := map[string]int{}
	var nameItems []string
	for i, n := range names {
		nameID[n] = i
		pkg, name, _ := strings.Cut(n, "\x00")
		nameItems = append(nameItems, fmt.Sprintf("⟨%d, %s, %s⟩", i, leanStr(pkg), leanStr(name)))
	}
	tmplSet := map[string]bool{}
	for _, d := range allDefs {
		tmplSet[d.tmpl] = true
	}
	for _, u := range allUses {
		tmplSet[u.tmpl] = true
	}
	var tmpls, tmplItems []string
	for t := range tmplSet {
		tmpls = append(tmpls, t)
	}
	sort.Strings(tmpls)
	tmplID := map[string]int{}
	for i, t := range tmpls {
		tmplID[t] = i
		tmplItems = append(tmplItems, leanStr(t))
	}
	var fileItems []string
	for i, fl := range files {
		cond := c17Bin('|', fl.cond)
		fileItems = append(fileItems, fmt.Sprintf("⟨%d, %s, %s, %s, %s⟩", i, leanStr(fl.name), leanStr(fl.tmpl), leanStr(c17PkgOf(fl.name)), cond.lean(atomID)))
	}
	var defItems, useItems, defSigs, useSigs []string
	for _, d := range allDefs {
		defSigs = append(defSigs, leanStr(fmt.Sprintf("%s.%s | %s | %s | %s | %s", d.pkg, d.name, files[d.file].name, d.tmpl, d.kind, d.guard.pretty())))
		defItems = append(defItems, fmt.Sprintf("⟨%d, %d, %d, %s, %s⟩", nameID[d.pkg+"\x00"+d.name], d.file, tmplID[d.tmpl], leanStr(d.kind), d.guard.lean(atomID)))
	}
	for _, u := range allUses {
		useSigs = append(useSigs, fmt.Sprintf("%s.%s | %s | %s | %s", u.pkg, u.name, files[u.file].name, u.tmpl, u.guard.pretty()))
		useItems = append(useItems, fmt.Sprintf("⟨%d, %d, %d, %s⟩", nameID[u.pkg+"\x00"+u.name], u.file, tmplID[u.tmpl], u.guard.lean(atomID)))
	}

	if p.Verbose {
		fmt.Fprintf(os.Stderr, "C17: %d files, %d atoms, %d names, %d definitions, %d use sites\n", len(files), len(atoms), len(names), len(allDefs), len(allUses))
		for i, a := range atoms {
			fmt.Fprintf(os.Stderr, "C17 atom %d\t%s\n", i, a)
		}
		for i, fl := range files {
			fmt.Fprintf(os.Stderr, "C17 file %d\t%s\t%s\t%s\n", i, fl.name, fl.tmpl, c17Bin('|', fl.cond).pretty())
		}
		var lines []string
		for _, d := range allDefs {
			lines = append(lines, fmt.Sprintf("C17 def\t%s.%s\t%s\t%s\t%s\t%s", d.pkg, d.name, files[d.file].name, d.tmpl, d.kind, d.guard.pretty()))
		}
		seen := map[string]bool{}
		for _, u := range allUses {
			l := fmt.Sprintf("C17 use\t%s.%s\t%s\t%s\t%s", u.pkg, u.name, files[u.file].name, u.tmpl, u.guard.pretty())
			if !seen[l] {
				seen[l] = true
				lines = append(lines, l)
			}
		}
		sort.Strings(lines)
		for _, l := range lines {
			fmt.Fprintln(os.Stderr, l)
		}
		// helper for maintaining the expectation table: pairs that do not hold WITHOUT any axiom
		// (`.Options.IsEnabled` atoms of the definition taken as true)
		defOf := map[string][]*c17F{}
		for _, d := range allDefs {
			g := c17Bin('&', []*c17F{c17Bin('|', files[d.file].cond), d.guard})
			defOf[d.pkg+"."+d.name] = append(defOf[d.pkg+"."+d.name], g)
		}
		seenPair := map[string]bool{}
		for _, u := range allUses {
			ug := c17Bin('&', []*c17F{c17Bin('|', files[u.file].cond), u.guard})
			dg := c17Bin('|', defOf[u.pkg+"."+u.name])
			if cex := c17Counter(ug, dg); cex != "" {
				l := fmt.Sprintf("C17 open\t%s.%s\t%s\t%s\n\tuse: %s\n\tdef: %s\n\tcounterexample: %s", u.pkg, u.name, files[u.file].name, u.tmpl, ug.pretty(), dg.pretty(), cex)
				if !seenPair[l] {
					seenPair[l] = true
					fmt.Fprintln(os.Stderr, l)
				}
			}
		}
	}

	w.Comment("Distinct guard pipelines of gen/templates/go_*.go.tmpl and conditions of language.templates; ⟨id, canonical text⟩, position = id.")
	c17DefOrdered(w, "c17Atoms", "TmplAtom", atomItems)
	w.Comment("Go files of languages[\"go\"]; ⟨id, output file, template, generated package, condition of language.templates⟩, position = id.")
	c17DefOrdered(w, "c17Files", "TmplFile", fileItems)
	w.Comment("Identifiers declared at top level by template text; ⟨id, package, name⟩, position = id.")
	c17DefOrdered(w, "c17Names", "TmplName", nameItems)
	w.Comment("Define blocks that contain declarations or uses (`main` = top level of a file template); position = id.")
	c17DefOrdered(w, "c17Tmpls", "String", tmplItems)
	w.Comment("Declaration and use sites grouped by identifier (position = name id): ⟨name id, declaration sites ⟨name id, file id,\ndefine block id, kind, guard⟩, use sites (de-duplicated) ⟨name id, file id, define block id, guard⟩⟩.")
	defsOf := map[int][]string{}
	usesOf := map[int][]string{}
	for i, d := range allDefs {
		n := nameID[d.pkg+"\x00"+d.name]
		defsOf[n] = append(defsOf[n], defItems[i])
	}
	for i, u := range allUses {
		n := nameID[u.pkg+"\x00"+u.name]
		usesOf[n] = append(usesOf[n], useItems[i])
	}
	var groupItems []string
	for n := range names {
		ds := append([]string(nil), defsOf[n]...)
		sort.Strings(ds)
		ds = slicesCompact(ds)
		us := append([]string(nil), usesOf[n]...)
		sort.Strings(us)
		us = slicesCompact(us)
		groupItems = append(groupItems, fmt.Sprintf("⟨%d,\n    [%s],\n    [%s]⟩", n, strings.Join(ds, ",\n     "), strings.Join(us, ",\n     ")))
	}
	c17DefOrdered(w, "c17Groups", "TmplGroup", groupItems)
	w.Comment("Name ids of the labels (`Func#label`): besides `goto → label`, Go requires every label to be used.")
	var labelItems []string
	labelSeen := map[int]bool{}
	for _, d := range allDefs {
		if n := nameID[d.pkg+"\x00"+d.name]; d.kind == "label" && !labelSeen[n] {
			labelSeen[n] = true
			labelItems = append(labelItems, fmt.Sprint(n))
		}
	}
	sort.Slice(labelItems, func(i, j int) bool {
		a, _ := strconv.Atoi(labelItems[i])
		b, _ := strconv.Atoi(labelItems[j])
		return a < b
	})
	c17DefOrdered(w, "c17LabelNames", "Nat", labelItems)
	sort.Strings(useSigs)
	useSigs = slicesCompact(useSigs)
	hashes = append(hashes, leanRec("digest of the use sites", fmt.Sprintf("%d:%x", len(useSigs), sha256.Sum256([]byte(strings.Join(useSigs, "\n"))))[:24]))
	w.Comment("One line per declaration site: package.name | file | define block | kind | guard (the text pinned by the expectation table).")
	w.Def("c17DefSigs", "String", defSigs)
	w.Comment("Hashes of the declarations of package gen that decide which template produces which file and how templates are combined.")
	w.Def("c17Hashes", "TmplHash", hashes)
	w.Comment("Templates that could not be read or parsed, statements of language.templates that were not understood (normally empty).")
	var pr []string
	for _, s := range problems {
		pr = append(pr, leanStr(s))
	}
	w.Def("c17Problems", "String", pr)
}
