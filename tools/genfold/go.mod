module tmverif/genfold

go 1.25
