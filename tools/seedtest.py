#!/usr/bin/env python3
"""seedtest.py <seed-dir> <check-id>[,<check-id>…] [--tier quick]
Confirms a seeded change (patch.diff + demonstration + meta.json produced by an independent agent) in a
fresh scratch worktree of /repo: patch applies, builds, the existing suite passes, the demonstration fails
with the change and passes without it; then runs the named /verif checks against the changed copy.
Prints a JSON summary. The worktree is removed afterwards."""
import json, os, re, subprocess, sys, shutil, tempfile
seed = os.path.abspath(sys.argv[1]); checks = sys.argv[2].split(","); tier = "quick"
if "--tier" in sys.argv: tier = sys.argv[sys.argv.index("--tier") + 1]
meta = json.load(open(os.path.join(seed, "meta.json")))
wt = tempfile.mkdtemp(prefix="seedwt-", dir="/tmp/wt"); os.rmdir(wt)
env = dict(os.environ, GOFLAGS="-mod=mod", GOPROXY="off"); env.pop("GOSUMDB", None); env.pop("GOTOOLCHAIN", None)
def sh(cmd, cwd=None, timeout=3600):
    p = subprocess.run(cmd, shell=True, cwd=cwd, env=env, stdout=subprocess.PIPE, stderr=subprocess.STDOUT, timeout=timeout)
    return p.returncode, p.stdout.decode("utf-8", "replace")
res = {"seed": seed, "title": meta.get("title")}
try:
    rc, out = sh(f"git -C /repo worktree add -q {wt} HEAD"); assert rc == 0, out
    # hook files of agents still at work (untracked verif_export_*.go in /repo) belong to the harness's view of the tree
    rc, out = sh("git -C /repo ls-files --others --exclude-standard")
    for f in out.split():
        if os.path.basename(f).startswith("verif_export_") and f.endswith(".go"):
            os.makedirs(os.path.dirname(os.path.join(wt, f)), exist_ok=True); shutil.copy(os.path.join("/repo", f), os.path.join(wt, f))
    rc, out = sh(f"git apply {seed}/patch.diff", cwd=wt); res["applies"] = rc == 0
    if rc != 0: res["apply_error"] = out[-500:]; raise SystemExit
    rc, out = sh("go build ./...", cwd=wt); res["builds"] = rc == 0
    rc, out = sh("go test -count=1 ./... 2>&1 | grep -v 'no test files' | grep -v '^ok' | head -20", cwd=wt); res["suite_passes"] = out.strip() == ""
    if out.strip(): res["suite_output"] = out[-800:]
    # demonstration: copy every *_test.go of the seed dir to the package named in the demo command
    demo = meta.get("demo", "")
    copies = re.findall(r"cp\s+\S*/([\w.]+_test\.go)\s+(\S+)", demo)
    tests = re.findall(r"go test (.*?)(?:\s+#|\s{2,}|\s+\(|$|&&|;)", demo)
    def local(dst):
        # demo commands name the seeding agent's own worktree; redirect into ours
        dst = re.sub(r"^/tmp/wt/seed\d?-C\d\d/", "", dst)
        return os.path.join(wt, dst)
    copies = [(fn, local(dst)) for fn, dst in copies]
    for fn, dst in copies:
        shutil.copy(os.path.join(seed, fn), dst)
    cmd = "go test -count=1 " + (tests[0].strip() if tests else "./...")
    # demonstrations delivered as a script `run.sh [worktree]` (generate a parser into the tree, test it, clean up)
    scripts = re.findall(r"(?:sh\s+)?(\S*/run\.sh)", demo)
    if scripts and not copies:
        script = os.path.join(seed, os.path.relpath(scripts[0], re.match(r"(.*?/C\d\d-\d+)/", scripts[0]).group(1))) if re.match(r"(.*?/C\d\d-\d+)/", scripts[0]) else scripts[0]
        cmd = f"sh {script} {wt}"
    rc1, out1 = sh(cmd, cwd=wt); res["demo_fails_with_change"] = rc1 != 0
    sh(f"git apply -R {seed}/patch.diff", cwd=wt)
    rc2, out2 = sh(cmd, cwd=wt); res["demo_passes_without"] = rc2 == 0
    if rc2 != 0: res["demo_clean_output"] = out2[-600:]
    for fn, dst in copies:
        os.remove(dst if os.path.isfile(dst) else os.path.join(dst, fn))
    sh(f"git apply {seed}/patch.diff", cwd=wt)
    res["checks"] = {}
    for c in checks:
        rc, out = sh(f"VERIF_REPO={wt} ./check {c} --tier {tier}", cwd="/verif", timeout=7200)
        lines = [l for l in out.splitlines() if l.startswith(("VIOLATION", "OK", "KNOWN"))]
        detail = [l for l in out.splitlines() if l.startswith("   ")][:2]
        res["checks"][c] = {"rc": rc, "lines": [l[:200] for l in lines if not l.startswith("KNOWN")], "detail": [d[:300] for d in detail]}
finally:
    sh(f"git -C /repo worktree remove --force {wt}")
    for d in os.listdir("/verif/.build"):
        pass
print(json.dumps(res, indent=1))
