#!/usr/bin/env python3
"""Prints the mechanical parts of Facts/ExpectC17.lean (atom table, definition signatures, pinned hashes)
from lean/TmVerif/Facts/GeneratedC17.lean."""
import re, sys
src = open(sys.argv[1] if len(sys.argv) > 1 else '/verif/lean/TmVerif/Facts/GeneratedC17.lean').read()
def body(name):
    i = src.index('def ' + name + ' ')
    j = src.index('\n]', i)
    return src[i:j]
atoms = re.findall(r'⟨(\d+), ("(?:[^"\\]|\\.)*")⟩', body('c17Atoms'))
atoms.sort(key=lambda a: int(a[0]))
print('def c17AtomExpectations : List AtomExpect := [')
rows = []
for _, t in atoms:
    raw = t[1:-1]
    if raw.startswith('.Options.IsEnabled '): k = 'delegated'
    elif raw.startswith('[local] '): k = 'localUse'
    elif raw.startswith('[local-def] '): k = 'localDef'
    elif raw.startswith('.Options.'): k = 'option'
    else: k = 'shape'
    rows.append(f'  ⟨{t}, .{k}⟩')
print(',\n'.join(rows))
print(']\n')
sigs = re.findall(r'^  ("(?:[^"\\]|\\.)*"),?$', body('c17DefSigs'), re.M)
print('def c17ExpectedDefSigs : List String := [')
print(',\n'.join('  ' + s for s in sigs))
print(']\n')
hs = re.findall(r'⟨("(?:[^"\\]|\\.)*"), ("(?:[^"\\]|\\.)*")⟩', body('c17Hashes'))
print('def c17ExpectedHashes : List TmplHash := [')
print(',\n'.join(f'  ⟨{a}, {b}⟩' for a, b in hs))
print(']')
