#!/usr/bin/env python3
"""Regenerates the MECHANICAL part of lean/TmVerif/Facts/ExpectC17.lean (everything below the marker line)
from lean/TmVerif/Facts/GeneratedC17.lean and from the hand-written tables above the marker:

  c17AtomExpectations   one entry per guard atom, in id order (kind by the shape of the text)
  c17AxiomAtomIds       for every entry of c17Axioms the ids of the atoms it mentions, in order of occurrence
  c17KnownIds           for every entry of c17KnownInconsistent (name id, file id, define-block id, ids of `trues`)
  c17NotPropIds         for every entry of c17NotPropositional (name id, file id, define-block id)
  c17ExpectedDefSigs    the declaration sites
  c17ExpectedHashes     digest of the use sites, hashes of the Go declarations the tables rely on

Kernel evaluation of String equality is very slow, therefore the Lean obligations compute with ids only; the
ids written here are HINTS that Props/C17.lean checks against the texts by `rfl` (C17_tables_resolve): a stale
or wrong hint breaks that theorem, it cannot make an obligation pass.

usage: python3 tools/c17expect.py            (rewrites ExpectC17.lean in place; run tools/factgen first)
       python3 tools/c17expect.py --check    (exit 1 if the file would change)
"""
import os, re, sys

ROOT = os.path.dirname(os.path.dirname(os.path.abspath(__file__)))
FACTS = os.path.join(ROOT, 'lean', 'TmVerif', 'Facts', 'GeneratedC17.lean')
EXPECT = os.path.join(ROOT, 'lean', 'TmVerif', 'Facts', 'ExpectC17.lean')
MARK = '-- ==== everything below this line is written by tools/c17expect.py ===='
STR = r'"(?:[^"\\]|\\.)*"'


def block(src, name):
    i = src.index('def ' + name + ' ')
    j = src.index('\n]', i)
    return src[i:j]


def entries(text):
    """splits the body of a list definition into its `⟨ … ⟩` entries (each starts a line with two blanks)"""
    parts = re.split(r'^  (?=⟨)', text, flags=re.M)
    return parts[1:]


def main():
    src = open(FACTS).read()
    exp = open(EXPECT).read()
    if MARK not in exp:
        sys.exit('marker line not found in ' + EXPECT)
    hand = exp[:exp.index(MARK)]

    atoms = [m.group(1) for m in re.finditer(r'⟨\d+, (' + STR + r')⟩', block(src, 'c17Atoms'))]
    atom_id = {a: i for i, a in enumerate(atoms)}
    names = re.findall(r'⟨(\d+), (' + STR + r'), (' + STR + r')⟩', block(src, 'c17Names'))
    name_id = {(p, n): int(i) for i, p, n in names}
    files = re.findall(r'⟨(\d+), (' + STR + r'),', block(src, 'c17Files'))
    file_id = {f: int(i) for i, f in files}
    tmpls = re.findall(r'^  (' + STR + r'),?$', block(src, 'c17Tmpls'), re.M)
    tmpl_id = {t: i for i, t in enumerate(tmpls)}

    out = [MARK, '']
    out.append('/-- One entry per guard atom of the templates, in id order. -/')
    out.append('def c17AtomExpectations : List AtomExpect := [')
    rows = []
    for t in atoms:
        raw = t[1:-1]
        if raw.startswith('.Options.IsEnabled '):
            k = 'delegated'
        elif raw.startswith('[local] '):
            k = 'localUse'
        elif raw.startswith('[local-def] '):
            k = 'localDef'
        elif raw.startswith('.Options.'):
            k = 'option'
        else:
            k = 'shape'
        rows.append(f'  ⟨{t}, .{k}⟩')
    out.append(',\n'.join(rows))
    out.append(']\n')

    def missing(what, key):
        print(f'c17expect: {what}: unknown {key} (hint 1000000 written; C17_tables_resolve will fail)', file=sys.stderr)
        return 1000000

    # axioms: atoms in order of occurrence (hypothesis, then conclusion)
    rows = []
    for e in entries(block(hand, 'c17Axioms')):
        cut = max(e.rfind(', true,'), e.rfind(', false,'))
        body = e[:cut] if cut >= 0 else e
        ids = [atom_id[t] if t in atom_id else missing('c17Axioms', t) for t in re.findall(r'\ba (' + STR + ')', body)]
        rows.append('  [' + ', '.join(map(str, ids)) + ']')
    out.append('/-- Hints: ids of the atoms each entry of `c17Axioms` mentions, in order of occurrence. -/')
    out.append('def c17AxiomAtomIds : List (List Nat) := [')
    out.append(',\n'.join(rows))
    out.append(']\n')

    rows = []
    for e in entries(block(hand, 'c17KnownInconsistent')):
        strs = re.findall(STR, e)
        _, pkg, name, fl, tm = strs[:5]
        m = re.search(r'\[(.*?)\]', e[e.index(tm) + len(tm):], re.S)
        trues = re.findall(STR, m.group(1)) if m else []
        n = name_id.get((pkg, name), None)
        n = n if n is not None else missing('c17KnownInconsistent', pkg + '.' + name)
        f = file_id[fl] if fl in file_id else missing('c17KnownInconsistent', fl)
        t = tmpl_id[tm] if tm in tmpl_id else missing('c17KnownInconsistent', tm)
        tr = [atom_id[a] if a in atom_id else missing('c17KnownInconsistent', a) for a in trues]
        rows.append(f'  ({n}, {f}, {t}, [' + ', '.join(map(str, tr)) + '])')
    out.append('/-- Hints: (name id, file id, define-block id, ids of `trues`) of each entry of `c17KnownInconsistent`. -/')
    out.append('def c17KnownIds : List (Nat × Nat × Nat × List Nat) := [')
    out.append(',\n'.join(rows))
    out.append(']\n')

    rows = []
    for e in entries(block(hand, 'c17NotPropositional')):
        pkg, name, fl, tm = re.findall(STR, e)[:4]
        n = name_id.get((pkg, name), None)
        n = n if n is not None else missing('c17NotPropositional', pkg + '.' + name)
        f = file_id[fl] if fl in file_id else missing('c17NotPropositional', fl)
        t = tmpl_id[tm] if tm in tmpl_id else missing('c17NotPropositional', tm)
        rows.append(f'  ({n}, {f}, {t})')
    out.append('/-- Hints: (name id, file id, define-block id) of each entry of `c17NotPropositional`. -/')
    out.append('def c17NotPropIds : List (Nat × Nat × Nat) := [')
    out.append(',\n'.join(rows))
    out.append(']\n')

    sigs = re.findall(r'^  (' + STR + r'),?$', block(src, 'c17DefSigs'), re.M)
    out.append('/-- Every declaration site: package.name | file | define block | kind | guard. -/')
    out.append('def c17ExpectedDefSigs : List String := [')
    out.append(',\n'.join('  ' + s for s in sigs))
    out.append(']\n')

    hs = re.findall(r'⟨(' + STR + r'), (' + STR + r')⟩', block(src, 'c17Hashes'))
    out.append('/-- Digest of the use sites (count:sha256 prefix) and hashes of the Go declarations the tables rely on. -/')
    out.append('def c17ExpectedHashes : List TmplHash := [')
    out.append(',\n'.join(f'  ⟨{a}, {b}⟩' for a, b in hs))
    out.append(']\n')
    out.append('end TmVerif.Facts')
    new = hand + '\n'.join(out) + '\n'
    if '--check' in sys.argv:
        sys.exit(0 if new == exp else 1)
    if new != exp:
        open(EXPECT, 'w').write(new)
        print('rewrote', EXPECT)


if __name__ == '__main__':
    main()
