#!/usr/bin/env python3
"""Regenerates the tables of DESIGN.md §9 between the BEGIN/END markers from known_findings.json,
seeded/*/meta.json and `git -C /repo log`."""
import json, os, re, subprocess
ROOT = os.path.dirname(os.path.dirname(os.path.abspath(__file__)))
kf = json.load(open(os.path.join(ROOT, "known_findings.json")))["findings"]
log = subprocess.check_output(["git", "-C", "/repo", "log", "--format=%h %s", "91db560..HEAD"]).decode().splitlines()
fixes = [l for l in log if " fix:" in " " + l.split(" ", 1)[1][:5] or l.split(" ", 1)[1].startswith("fix:")]
hooks = [l for l in log if "verif hooks" in l]
out = []
out.append("#### `fix:` commits in /repo (%d), oldest first\n" % len(fixes))
out.append("| commit | subject |\n|---|---|")
for l in reversed(fixes):
    h, s = l.split(" ", 1)
    out.append(f"| {h} | {s[5:].strip()} |")
out.append("\nHook commits (build tag `verif`, add-only): " + ", ".join(l.split(" ", 1)[0] for l in reversed(hooks)) + ".\n")
out.append("#### Findings by property\n")
out.append("| id | property | status | what |\n|---|---|---|---|")
for f in sorted(kf, key=lambda f: (f["property"], f["id"])):
    what = f["what"].replace("|", "\\|")
    out.append(f"| {f['id']} | {f['property']} | {f['status']} | {what[:400]} |")
tables1 = "\n".join(out)
out = ["| seeded change | breaks | needs to manifest | caught by |\n|---|---|---|---|"]
sd = os.path.join(ROOT, "seeded")
for d in sorted(os.listdir(sd)):
    mp = os.path.join(sd, d, "meta.json")
    if not os.path.exists(mp): continue
    m = json.load(open(mp))
    r = m.get("verif_result", {})
    caught = "; ".join(r.get("caught_by", [])) or "NOT CAUGHT"
    if r.get("initially_missed"): caught = "(initially missed) " + caught
    if r.get("note"): caught += " — " + r["note"]
    title = (m.get("title") or m.get("what_it_breaks") or "").replace("|", "\\|")
    need = (m.get("needs_to_manifest") or "").replace("|", "\\|").replace("\n", " ")
    out.append(f"| {d}: {title[:160]} | {m.get('property','')} | {need[:220]} | {caught.replace('|','/')} |")
tables2 = "\n".join(out)
p = os.path.join(ROOT, "DESIGN.md")
s = open(p).read()
def put(s, name, body):
    b, e = f"<!-- BEGIN {name} -->", f"<!-- END {name} -->"
    if b not in s:
        return s
    return s[:s.index(b) + len(b)] + "\n" + body + "\n" + s[s.index(e):]
claims = json.load(open(os.path.join(ROOT, "tools", "claims.json")))
rows = ["| property | theorems (Props/Cxx.lean) | what is proved / how it is tied (MANIFEST level text) | not proved / trusted |\n|---|---|---|---|"]
for pid in sorted(k for k in claims if re.fullmatch(r"C\d\d", k)):
    c = claims[pid]
    if c.get("not_applicable"):
        rows.append(f"| {pid} | – | not applicable: {c['not_applicable']} | |")
        continue
    n = 0
    pd = os.path.join(ROOT, "lean", "TmVerif", "Props")
    for fn in os.listdir(pd):
        if fn.startswith(pid) and fn.endswith(".lean"):
            n += len(re.findall(r"^theorem\s+" + pid + r"_", open(os.path.join(pd, fn)).read(), re.M))
    rows.append(f"| {pid} | {n} | {c['text'].replace('|', '/')} | {c['note'].replace('|', '/')} |")
s = put(s, "SUMMARY", "\n".join(rows))
s = put(s, "FINDINGS", tables1)
s = put(s, "SEEDED", tables2)
open(p, "w").write(s)
print("tables regenerated:", len(fixes), "fixes,", len(kf), "findings")
