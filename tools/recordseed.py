#!/usr/bin/env python3
"""recordseed.py <seed-dir> <check-id>[,…] [--note "text"] [--initially-missed]
Runs tools/seedtest.py on a seeded change and, when the coordinator's confirmation succeeds (applies,
builds, suite passes, demonstration fails with / passes without the change), copies the seed to
/verif/seeded/<id>/ with `confirmed_by_coordinator` and `verif_result` added to meta.json."""
import json, os, shutil, subprocess, sys
seed = os.path.abspath(sys.argv[1]); checks = sys.argv[2]
note = sys.argv[sys.argv.index("--note") + 1] if "--note" in sys.argv else None
missed = "--initially-missed" in sys.argv
out = subprocess.run([sys.executable, "/verif/tools/seedtest.py", seed, checks], stdout=subprocess.PIPE).stdout
r = json.loads(out)
ok = all(r.get(k) for k in ("applies", "builds", "suite_passes", "demo_fails_with_change", "demo_passes_without"))
sid = os.path.basename(seed)
caught = [c for c, v in r.get("checks", {}).items() if v["rc"] != 0 and any(l.startswith("VIOLATION") for l in v["lines"])]
weak = [c for c in caught if any("no-failing-input-found" in l for l in r["checks"][c]["lines"])]
print(sid, "confirmed" if ok else "NOT CONFIRMED", "caught_by", caught, "weak", weak)
for c, v in r.get("checks", {}).items():
    print("   ", c, v["rc"], v["lines"][:1], [d[:240] for d in v["detail"][:1]])
if not ok:
    print(json.dumps({k: v for k, v in r.items() if k != "checks"}, indent=1)); sys.exit(1)
dst = os.path.join("/verif/seeded", sid)
if os.path.realpath(seed) != os.path.realpath(dst):
    if os.path.isdir(dst): shutil.rmtree(dst)
    shutil.copytree(seed, dst)
meta = json.load(open(os.path.join(dst, "meta.json")))
meta["confirmed_by_coordinator"] = {"applies": True, "builds": True, "existing_suite_passes": True,
    "demo_fails_with_change": True, "demo_passes_without": True, "how": "tools/seedtest.py in a fresh worktree of /repo HEAD"}
vr = {"caught_by": [], "initially_missed": missed}
for c in caught:
    d = (r["checks"][c]["detail"] or [""])[0].strip()
    vr["caught_by"].append(f"{c}: {d[:260]}" + (" (no-failing-input-found)" if c in weak else ""))
vr["not_caught_by"] = [c for c in r.get("checks", {}) if c not in caught]
if note: vr["note"] = note
meta["verif_result"] = vr
json.dump(meta, open(os.path.join(dst, "meta.json"), "w"), indent=1)
